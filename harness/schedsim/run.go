package schedsim

import (
	"fmt"
	"os"
	"runtime/debug"
	"sort"
	"strings"
	"testing"
	"testing/synctest"
	"time"

	"pgregory.net/rapid"
)

// profile selects the generator weights and the shape of the world for
// one property.
type profile struct {
	name       string
	ops        []string // multiset of step names; drawn uniformly
	maxSteps   int
	minSteps   int
	instances  []string
	queues     func(rt *rapid.T) []queueSpec
	workers    [2]int
	actions    [2]int
	invDepth   [2]int
	syncKinds  []string
	nontrivial func(l labels) bool
	finalDrain bool
	fair       bool
	invPaths   []string
	fixedPrio  bool
	routers    func(rt *rapid.T) []queueSpec
	// alwaysRetry makes every request's learner ask for a retry on the
	// largest size class and choose the smallest class first.
	alwaysRetry bool
	retryCounts [2]int // range of WorkerTaskRetryCount; zero value = 0..3
	// mixedDepth: half of the worlds route instance names under "a"
	// through one invocation key extractor less.
	mixedDepth bool
	// oddClasses: half of the worlds let workers of predeclared platform
	// queues announce size classes of their own choosing.
	oddClasses bool
}

func drawConfig(rt *rapid.T, p *profile) worldConfig {
	cfg := worldConfig{
		Queues:     p.queues(rt),
		InvDepth:   rapid.IntRange(p.invDepth[0], p.invDepth[1]).Draw(rt, "invDepth"),
		RetryCount: drawRetryCount(rt, p),
		NActions:   rapid.IntRange(p.actions[0], p.actions[1]).Draw(rt, "nActions"),
		NWorkers:   rapid.IntRange(p.workers[0], p.workers[1]).Draw(rt, "nWorkers"),
	}
	if p.routers != nil {
		cfg.Routers = p.routers(rt)
	}
	if p.oddClasses && rapid.Bool().Draw(rt, "oddClasses") {
		for i := 0; i < cfg.NWorkers; i++ {
			q := cfg.Queues[i%len(cfg.Queues)]
			sc := q.SizeClasses[(i/len(cfg.Queues))%len(q.SizeClasses)]
			if q.Predeclared {
				max := q.SizeClasses[len(q.SizeClasses)-1]
				switch rapid.IntRange(0, 9).Draw(rt, "workerClassKind") {
				case 0, 1, 2:
					// A class of its own below the maximum (or a predeclared one).
					sc = uint32(rapid.IntRange(1, int(max)).Draw(rt, "workerClass"))
				case 3:
					sc = max + uint32(rapid.IntRange(1, 3).Draw(rt, "aboveMax"))
				case 4:
					sc = 0
				}
			}
			cfg.WorkerClasses = append(cfg.WorkerClasses, sc)
		}
	}
	if p.mixedDepth && cfg.InvDepth >= 1 {
		cfg.MixedDepth = rapid.Bool().Draw(rt, "mixedDepth")
	}
	cfg.NestedWorkerIDs = cfg.NWorkers >= 2 && rapid.IntRange(0, 3).Draw(rt, "nestedWorkerIDs") == 0
	return cfg
}

func drawRetryCount(rt *rapid.T, p *profile) int {
	if p.retryCounts != [2]int{} {
		return rapid.IntRange(p.retryCounts[0], p.retryCounts[1]).Draw(rt, "retryCount")
	}
	return rapid.IntRange(0, 3).Draw(rt, "retryCount")
}

func defaultQueues(rt *rapid.T) []queueSpec {
	shape := rapid.IntRange(0, 4).Draw(rt, "queueShape")
	switch shape {
	case 0:
		return []queueSpec{{Prefix: "", Platform: 0, SizeClasses: []uint32{0}}}
	case 1:
		return []queueSpec{{Prefix: "", Platform: 0, Predeclared: true, SizeClasses: []uint32{1, 4}, MaxBG: rapid.IntRange(0, 2).Draw(rt, "maxBG"), BGPriority: 100}}
	case 2:
		return []queueSpec{{Prefix: "", Platform: 0, Predeclared: true, SizeClasses: []uint32{1, 2, 8}, MaxBG: 1, Stickiness: []int{30}}}
	case 3:
		return []queueSpec{{Prefix: "", Platform: 0, SizeClasses: []uint32{0}}, {Prefix: "a", Platform: 0, SizeClasses: []uint32{0}}}
	default:
		return []queueSpec{{Prefix: "", Platform: 0, Predeclared: true, SizeClasses: []uint32{2}}, {Prefix: "", Platform: 1, SizeClasses: []uint32{0}}}
	}
}

type caseResult struct {
	script []step
	cfg    worldConfig
	labels labels
	diags  []string
}

// runCase executes one generated case inside a synctest bubble and
// returns its script; violations are reported through rt.Fatalf.
func runCase(t *testing.T, rt *rapid.T, p *profile) *caseResult {
	cfg := drawConfig(rt, p)
	res := &caseResult{cfg: cfg}
	var failure string
	var rapidPanic any
	synctest.Test(t, func(st *testing.T) {
		var w *world
		defer func() {
			if r := recover(); r != nil {
				if v, ok := r.(violation); ok {
					failure = v.msg
				} else {
					// rapid's own control-flow panics (invalid data, t.Fatalf)
					// and genuine panics in the code under test.
					if isRapidPanic(r) {
						// Re-raised in rapid's goroutine below.
						rapidPanic = r
					} else {
						failure = fmt.Sprintf("panic in the code under test: %v\n%s", r, debug.Stack())
					}
				}
			}
			watchdogWorld.Store(nil)
			cleanup(w)
			if w != nil {
				res.script = w.script
				res.labels = w.m.labels
				for d := range w.m.diagnostics {
					res.diags = append(res.diags, d)
				}
				sort.Strings(res.diags)
			}
		}()
		w = newWorld(rt, cfg)
		watchdogWorld.Store(w)
		watchdogProgress.Add(1)
		w.m.autoTick = rapid.Bool().Draw(rt, "autoTick")
		w.m.fair = p.fair
		w.invPaths = p.invPaths
		w.alwaysRetry = p.alwaysRetry
		w.fixedPriority = p.fixedPrio
		w.m.observe()
		maxSteps := p.maxSteps
		if os.Getenv("VERIF_TIER") == "thorough" {
			// Deeper histories in the thorough tier.
			maxSteps = maxSteps * 5 / 2
		}
		n := rapid.IntRange(p.minSteps, maxSteps).Draw(rt, "steps")
		for i := 0; i < n; i++ {
			w.stepNo++
			op := rapid.SampledFrom(p.ops).Draw(rt, "op")
			w.doStep(op, p)
		}
		if p.finalDrain {
			w.finalDrain()
		}
	})
	if rapidPanic != nil {
		panic(rapidPanic)
	}
	if failure != "" {
		rt.Fatalf("%s\nconfig=%+v\nscript:\n%s", failure, cfg, formatScript(res.script))
	}
	return res
}

func isRapidPanic(r any) bool {
	s := fmt.Sprintf("%T", r)
	return strings.Contains(s, "rapid.")
}

func formatScript(script []step) string {
	var b strings.Builder
	for _, s := range script {
		fmt.Fprintf(&b, "  %3d %-16s %s", s.N, s.Op, s.Arg)
		if s.Out != "" {
			fmt.Fprintf(&b, "  => %s", s.Out)
		}
		b.WriteByte('\n')
	}
	return b.String()
}

// cleanup releases every goroutine of the case so that the bubble can end.
func cleanup(w *world) {
	if w == nil {
		return
	}
	for _, s := range w.streams {
		s.cancel()
	}
	for _, wk := range w.workers {
		if wk.cancel != nil {
			wk.cancel()
		}
	}
	for _, tc := range w.terms {
		tc.cancel()
	}
	for w.execAuthGate.release() {
	}
	for w.killAuthGate.release() {
	}
	synctest.Wait()
}

func (w *world) doStep(op string, p *profile) {
	switch op {
	case "execute":
		w.stepExecute(p.instances)
	case "wait":
		w.stepWait()
	case "cancelStream":
		w.stepCancelStream()
	case "breakStream":
		w.stepBreakStream()
	case "sync":
		w.stepSync(p.syncKinds)
	case "syncAuto":
		w.stepSync([]string{"auto"})
	case "syncIdle":
		w.stepSync([]string{"idle"})
	case "syncCompleted":
		w.stepSync([]string{"completed"})
	case "cancelSync":
		w.stepCancelSync()
	case "kill":
		w.stepKill()
	case "killQueue":
		w.stepKillQueue()
	case "addDrain":
		w.stepDrain(true)
	case "removeDrain":
		w.stepDrain(false)
	case "terminate":
		w.stepTerminate()
	case "cancelTerminate":
		w.stepCancelTerminate()
	case "advance":
		w.stepAdvance()
	case "advanceSmall":
		w.advance(rapid.SampledFrom([]time.Duration{time.Nanosecond, time.Millisecond, time.Second, 2 * time.Second}).Draw(w.rt, "advance"))
	case "tick":
		w.stepTick()
	case "slowFetch":
		w.stepExecuteSlowFetch(p.instances)
	case "raceWake":
		w.stepExecuteRacingWakeUp(p.instances)
	case "raceDrain":
		w.stepSyncRacingDrainChange()
	case "syncDuplicate":
		w.stepSyncDuplicate()
	case "raceTimer":
		w.stepExecuteRacingTimer(p.instances)
	case "raceCancel":
		w.stepCompleteRacingCancel()
	case "parkSend":
		w.stepParkSend()
	case "releaseSend":
		w.stepReleaseSend()
	case "waitParked":
		w.stepWaitParked()
	case "killParked":
		w.stepKillParked()
	case "releaseAuth":
		w.stepReleaseAuth()
	case "retryFail":
		// A worker that believes to be executing reports a failure.
		var cands []*workerSim
		for _, wk := range w.workers {
			if wk.inFlight == nil && wk.believes != nil {
				cands = append(cands, wk)
			}
		}
		if len(cands) > 0 {
			wk := cands[rapid.IntRange(0, len(cands)-1).Draw(w.rt, "worker")]
			w.sync(wk, "completed", rapid.Bool().Draw(w.rt, "preferIdle"), rapid.SampledFrom([]string{"exit1", "deadline", "internal"}).Draw(w.rt, "completion"))
		}
	case "fairPick":
		// A worker that believes to be idle asks for work.
		var cands []*workerSim
		for _, wk := range w.workers {
			if wk.inFlight == nil && wk.believes == nil {
				cands = append(cands, wk)
			}
		}
		if len(cands) > 0 {
			wk := cands[rapid.IntRange(0, len(cands)-1).Draw(w.rt, "worker")]
			w.sync(wk, "idle", false, "")
		}
	case "fairComplete":
		// A worker reports completion and asks to be left idle, so that
		// its next request for work is a separate call.
		var cands []*workerSim
		for _, wk := range w.workers {
			if wk.inFlight == nil && wk.believes != nil {
				cands = append(cands, wk)
			}
		}
		if len(cands) > 0 {
			wk := cands[rapid.IntRange(0, len(cands)-1).Draw(w.rt, "worker")]
			w.sync(wk, "completed", true, rapid.SampledFrom([]string{"ok", "ok", "ok", "exit1"}).Draw(w.rt, "completion"))
		}
	case "fairAdvance":
		w.advance(rapid.SampledFrom([]time.Duration{time.Nanosecond, time.Second, time.Second, 5 * time.Second, 11 * time.Second, 21 * time.Second, 31 * time.Second, 45 * time.Second}).Draw(w.rt, "advance"))
	default:
		panic("harness: unknown step " + op)
	}
}

// finalDrain makes every client and worker go away, lets every timeout
// pass and checks that nothing is retained (C06) and that the learner
// protocol was linear (C07).
func (w *world) finalDrain() {
	w.stepNo++
	w.m.pre()
	w.record("finalDrain", "cancel everything, advance past all timeouts")
	for _, s := range w.streams {
		s.cancelled = true
		s.cancel()
	}
	for _, wk := range w.workers {
		if wk.cancel != nil {
			wk.cancel()
		}
	}
	for _, tc := range w.terms {
		tc.cancel()
	}
	for w.execAuthGate.release() {
	}
	if w.killAuthGate.waiting() > 0 {
		for _, pk := range w.pendingKills {
			w.mu.Lock()
			r := pk.returned
			w.mu.Unlock()
			if !r {
				w.m.onKill(pk.name, pk.status)
			}
		}
		for w.killAuthGate.release() {
		}
	}
	w.quiesce()
	for _, s := range w.streams {
		s.mu.Lock()
		f := s.finished
		s.mu.Unlock()
		if !f {
			w.failf("C06: stream %d did not return after its context was cancelled", s.id)
		}
	}
	for _, wk := range w.workers {
		if wk.inFlight != nil {
			w.failf("C06: Synchronize of worker %d did not return after its context was cancelled", wk.idx)
		}
	}
	for _, tc := range w.terms {
		w.mu.Lock()
		r := tc.returned
		w.mu.Unlock()
		if !r {
			w.failf("C06: TerminateWorkers(%v) did not return after its context was cancelled", tc.pattern)
		}
	}
	for _, d := range []time.Duration{workerTimeout, noWaitersTimeout, queueTimeout, noWaitersTimeout + time.Second} {
		w.stepNo++
		w.clk.advance(d)
		w.m.pre()
	}
	snap := w.m.prev
	c := snap.Counts
	maxBG := 0
	for _, q := range w.cfg.Queues {
		if q.Predeclared {
			maxBG += q.MaxBG * len(q.SizeClasses)
		}
	}
	if c.Workers != 0 || c.RemovableSizeClassQueues != 0 {
		w.failf("C06: after all clients and workers are gone and all timeouts passed, the scheduler retains %d workers and %d worker-created size class queues", c.Workers, c.RemovableSizeClassQueues)
	}
	if c.Operations > maxBG || c.Tasks > maxBG {
		w.failf("C06: after all clients and workers are gone and all timeouts passed, the scheduler retains %d operations and %d tasks (background learning backlog bound: %d)", c.Operations, c.Tasks, maxBG)
	}
	for _, vt := range snap.Tasks {
		if vt.DesiredState.Action == nil || !vt.DesiredState.Action.DoNotCache || attemptKind(vt.DesiredState) != "bg" {
			w.failf("C06: a task that is not a background learning run is retained at the end: %s stage %s", actionIDOf(vt.DesiredState), vt.Stage)
		}
	}
	if c.Invocations != c.BackgroundInvocations || c.Invocations > c.Operations {
		w.failf("C06: %d invocations are retained at the end (%d of them for background learning, %d operations)", c.Invocations, c.BackgroundInvocations, c.Operations)
	}
	if c.Cleanups != 0 {
		w.failf("C06: %d cleanup entries are retained at the end", c.Cleanups)
	}
	if c.InFlightDeduplication != 0 {
		w.failf("C06: %d in-flight deduplication entries are retained at the end", c.InFlightDeduplication)
	}
	if n := w.clk.pending(); n != 0 {
		w.failf("C06: %d timers are still armed at the end", n)
	}
	w.checkLearnerLinearity(snap.Counts.Tasks)
}

// checkLearnerLinearity: C07(a).
func (w *world) checkLearnerLinearity(retainedTasks int) {
	if len(w.an.misuse) > 0 {
		w.failf("C07: analyzer protocol misuse: %s", strings.Join(w.an.misuse, "; "))
	}
	for _, s := range w.an.selectors {
		if len(s.Calls) != 1 {
			w.failf("C07: selector of Execute %s received calls %v, expected exactly one of Select/Abandoned", s.ActionID, s.Calls)
		}
	}
	open := 0
	for _, l := range w.an.learners {
		if len(l.Terminal) == 0 {
			open++
		} else if len(l.Terminal) > 1 {
			w.failf("C07: learner %d (%s of %s) received terminal calls %v", l.ID, l.Kind, l.ActionID, l.Terminal)
		}
	}
	// Learners of background runs that are still queued are legitimately open.
	if open > retainedTasks {
		w.failf("C07: %d learners never received a terminal call, but only %d tasks are retained", open, retainedTasks)
	}
}

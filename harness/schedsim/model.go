package schedsim

import (
	"context"
	"encoding/json"
	"fmt"
	"os"
	"sort"
	"strings"
	"testing/synctest"
	"time"

	remoteexecution "github.com/bazelbuild/remote-apis/build/bazel/remote/execution/v2"
	"github.com/buildbarn/bb-remote-execution/pkg/proto/buildqueuestate"
	"github.com/buildbarn/bb-remote-execution/pkg/proto/remoteworker"
	"github.com/buildbarn/bb-remote-execution/pkg/scheduler"
	"google.golang.org/grpc/codes"
	"google.golang.org/grpc/status"
	"google.golang.org/protobuf/proto"
	"google.golang.org/protobuf/types/known/emptypb"

	status_pb "google.golang.org/genproto/googleapis/rpc/status"
)

// taskModel is what the harness knows about one task of the scheduler,
// learnt from observations: stream messages, Synchronize responses, the
// public List* RPCs and the read-only snapshot hook.
type taskModel struct {
	id        int
	actionID  string
	kind      string // "fg" or "bg"
	digest    string
	cacheable bool
	opNames   map[string]bool
	firstSeen int

	// Workers ever told to execute each attempt ("first", "retry", "bg").
	attemptWorkers map[string]map[int]bool
	assigned       *workerSim // last worker told to execute it
	reissues       int        // number of times the current worker was told again

	acceptedCompletion *remoteexecution.ExecuteResponse // last worker-reported completion the scheduler accepted
	acceptedStep       int
	acceptedKind       string
	killStatus         *status_pb.Status
	killStep           int

	final           *remoteexecution.ExecuteResponse
	finalStep       int
	finalTime       time.Time
	prevStage       remoteexecution.ExecutionStage_Value
	prevQueue       string
	prevWorkerKey   string
	retried         bool
	acceptedAttempt string
	prevAttempt     string
	mismatch        int // Synchronize requests of the assigned worker that did not report this task, since assignment
	expectInternal  int // step in which the retry limit was exceeded, or 0
	requeues        int
}

type opModel struct {
	inputsChecked bool
	name          string
	task          *taskModel
	waiters       int
	removalAt     time.Time // zero = no removal pending
	removed       bool
}

type labels map[string]int

type model struct {
	// lateTick: a timer is due but its tick has deliberately not been
	// delivered yet (raceTimer), so calls that wait for it may be overdue.
	lateTick bool
	// Model-owned "last operation started" time of every invocation (C04
	// least-recently-served tie-break): queue name + invocation path.
	lastServed        map[string]int64
	lastSeenServed    map[string]int64
	prevWorkerAttempt map[string]string
	// Model-owned operator state (C05): the drains of every size class
	// queue (queue name -> pattern JSON -> pattern) and the workers that a
	// TerminateWorkers call found registered (queue name + worker key).
	drains        map[string]map[string]map[string]string
	terminating   map[string]bool
	drainsTouched bool
	w             *world
	tasks         []*taskModel
	byOp          map[string]*taskModel
	ops           map[string]*opModel
	prev          *scheduler.VerifSnapshot
	labels        labels
	startAt       time.Time
	autoTick      bool
	// A lock-taking call was made at the current instant right before
	// this observation, so every due cleanup must have run.
	justTicked bool

	// C04: reference fairness model enabled, and its per-worker state.
	fair bool
	fw   map[int]*fairWorker

	// per-stream bookkeeping
	seenMsgs    map[int]int
	streamOp    map[int]string
	streamDone  map[int]bool
	streamEnded map[int]bool

	// queues as last listed through ListPlatformQueues
	queues []*buildqueuestate.PlatformQueueState

	// what happened in the current step
	stepSyncs       []*syncResult
	stepSyncWorkers []*workerSim
	execExpect      map[int]*execExpectation // stream id -> expectation

	diagnostics map[string]bool
	cur         *scheduler.VerifSnapshot
}

type execExpectation struct {
	liveBefore *taskModel // live cacheable task for the digest before the call
	queueFound bool
	pqPrefix   string
	pqPlatform int
	sizeClass  uint32
	classes    []uint32
	errCode    codes.Code
}

func newModel(w *world) *model {
	return &model{
		w: w, byOp: map[string]*taskModel{}, ops: map[string]*opModel{}, labels: labels{}, startAt: w.clk.Now(),
		seenMsgs: map[int]int{}, streamOp: map[int]string{}, streamDone: map[int]bool{}, streamEnded: map[int]bool{},
		execExpect: map[int]*execExpectation{}, diagnostics: map[string]bool{},
		drains: map[string]map[string]map[string]string{}, terminating: map[string]bool{}, lastServed: map[string]int64{}, lastSeenServed: map[string]int64{},
	}
}

func (m *model) label(l string) { m.labels[l]++ }

// pre is called at the start of every step that calls into the
// scheduler: it makes a lock-taking call at the current instant (so that
// due cleanups run now rather than inside the step's own call, which is
// equivalent because every call runs them first) and re-observes.
func (m *model) pre() {
	m.listQueues()
	m.justTicked = true
	synctest.Wait()
	m.compareDrainListing()
	m.observe()
}

// ---------------------------------------------------------------- hooks called by steps

func (m *model) knownOperationNames() []string {
	names := make([]string, 0, len(m.ops))
	for n := range m.ops {
		names = append(names, n)
	}
	sort.Strings(names)
	return names
}

// liveOperationNames lists operations that still exist.
func (m *model) liveOperationNames() []string {
	var names []string
	for n, op := range m.ops {
		if !op.removed {
			names = append(names, n)
		}
	}
	sort.Strings(names)
	return names
}

func digestKey(instance, hash string) string { return instance + "|" + hash }

func (m *model) liveCacheable(key string) *taskModel {
	for _, t := range m.tasks {
		if t.final == nil && t.cacheable && t.kind == "fg" && t.digest == key {
			return t
		}
	}
	return nil
}

// listQueues refreshes the view of registered platform queues through the
// public ListPlatformQueues RPC. Semantically neutral right before a call
// that takes the scheduler lock at the same instant.
func (m *model) listQueues() {
	resp, err := m.w.bq.ListPlatformQueues(context.Background(), &emptypb.Empty{})
	if err != nil {
		m.w.failf("ListPlatformQueues failed: %v", err)
	}
	m.queues = resp.PlatformQueues
}

func platformIndex(p *remoteexecution.Platform) int {
	for i, q := range platforms {
		if proto.Equal(q, p) || (len(q.Properties) == 0 && len(p.GetProperties()) == 0) {
			return i
		}
	}
	return -1
}

func isPrefix(prefix, name string) bool {
	if prefix == "" {
		return true
	}
	return name == prefix || strings.HasPrefix(name, prefix+"/")
}

func (m *model) onExecuteStart(s *streamSim) {
	e := s.exec
	t := m.w.templates[e.Template]
	m.listQueues()
	exp := &execExpectation{}
	if !t.doNotCache {
		exp.liveBefore = m.liveCacheable(digestKey(e.Instance, t.hash))
	}
	// Reference routing: longest registered instance name prefix with
	// identical platform properties.
	best := -1
	for i, pq := range m.queues {
		if platformIndex(pq.Name.Platform) != t.platform {
			continue
		}
		if !isPrefix(pq.Name.InstanceNamePrefix, e.Instance) {
			continue
		}
		if best < 0 || len(pq.Name.InstanceNamePrefix) > len(m.queues[best].Name.InstanceNamePrefix) {
			best = i
		}
	}
	if best >= 0 {
		pq := m.queues[best]
		exp.queueFound = true
		exp.pqPrefix = pq.Name.InstanceNamePrefix
		exp.pqPlatform = t.platform
		for _, scq := range pq.SizeClassQueues {
			exp.classes = append(exp.classes, scq.SizeClass)
		}
		exp.sizeClass = exp.classes[e.Plan.Choice%len(exp.classes)]
	} else {
		exp.errCode = codes.FailedPrecondition
		judgedAt := m.w.clk.Now()
		if !m.w.slowFetchTarget.IsZero() {
			// Time passes while the action is fetched; the request is
			// judged when the scheduler looks at its state.
			judgedAt = m.w.slowFetchTarget
		}
		if judgedAt.Before(m.startAt.Add(queueTimeout)) {
			exp.errCode = codes.Unavailable
		}
	}
	m.execExpect[s.id] = exp
}

func (m *model) onWaitStart(s *streamSim) {}

func (m *model) onWorkerReportsCompletion(wk *workerSim, ds *remoteworker.DesiredState_Executing, resp *remoteexecution.ExecuteResponse, kind string) {
	// Accepted iff the scheduler currently has this worker running a
	// task with that digest (ground truth from the last snapshot).
	if m.prev == nil {
		return
	}
	for _, vw := range m.prev.Workers {
		if vw.Key == workerKeyOf(wk) && vw.QueueName == m.queueNameOf(wk) && vw.CurrentTask != nil && proto.Equal(vw.CurrentTask.DesiredState.ActionDigest, ds.ActionDigest) {
			if t := m.byOp[vw.CurrentTask.Operations[0].Name]; t != nil {
				t.acceptedCompletion = resp
				t.acceptedStep = m.w.stepNo
				t.acceptedKind = kind
				t.acceptedAttempt = attemptKind(vw.CurrentTask.DesiredState)
				m.label("completion_" + kind)
			}
		}
	}
}

func (m *model) onSyncStart(wk *workerSim, res *syncResult, kind string) {
	if m.prev == nil || res.req.CurrentState == nil {
		return
	}
	m.fairOnSyncStart(wk, res)
	for _, vw := range m.prev.Workers {
		if vw.Key != workerKeyOf(wk) || vw.QueueName != m.queueNameOf(wk) || vw.CurrentTask == nil {
			continue
		}
		t := m.byOp[vw.CurrentTask.Operations[0].Name]
		if t == nil {
			continue
		}
		matches := false
		if ex := res.req.CurrentState.GetExecuting(); ex != nil && proto.Equal(ex.ActionDigest, vw.CurrentTask.DesiredState.ActionDigest) {
			matches = true
		}
		if !matches {
			t.mismatch++
			if t.mismatch == m.w.cfg.RetryCount+1 {
				t.expectInternal = m.w.stepNo
				m.label("retry_limit_exceeded")
			}
		}
	}
}

func (m *model) onKill(name string, st *status_pb.Status) {
	if t := m.byOp[name]; t != nil && t.final == nil {
		if op := m.ops[name]; op != nil && !op.removed {
			t.killStatus = st
			t.killStep = m.w.stepNo
			m.label("kill_live")
		}
	}
}

func (m *model) onKillQueue(wk *workerSim, st *status_pb.Status) {
	qn := m.queueNameOf(wk)
	if m.prev == nil {
		return
	}
	for _, vt := range m.prev.Tasks {
		if vt.QueueName == qn && vt.Stage == remoteexecution.ExecutionStage_QUEUED {
			if t := m.byOp[vt.Operations[0].Name]; t != nil {
				t.killStatus = st
				t.killStep = m.w.stepNo
				m.label("kill_queue")
			}
		}
	}
}

func patternKey(pat map[string]string) string {
	b, _ := json.Marshal(pat) // encoding/json sorts map keys
	return string(b)
}

func (m *model) onDrain(wk *workerSim, pat map[string]string, add bool) {
	qn := m.queueNameOf(wk)
	if add {
		m.label("drain_added")
		if m.drains[qn] == nil {
			m.drains[qn] = map[string]map[string]string{}
		}
		m.drains[qn][patternKey(pat)] = pat
		m.drainsTouched = true
	} else {
		m.drainsTouched = true
		m.label("drain_removed")
		if _, ok := m.drains[qn][patternKey(pat)]; ok {
			m.label("drain_removed_existing")
		}
		delete(m.drains[qn], patternKey(pat))
	}
}

// modelDrained reports whether an active drain of the worker's queue
// matches the worker, according to the AddDrain/RemoveDrain calls that
// succeeded (not according to the scheduler's own bookkeeping).
func (m *model) modelDrained(wk *workerSim) (map[string]string, bool) {
	keys := make([]string, 0, len(m.drains[m.queueNameOf(wk)]))
	for k := range m.drains[m.queueNameOf(wk)] {
		keys = append(keys, k)
	}
	sort.Strings(keys)
	for _, k := range keys {
		if pat := m.drains[m.queueNameOf(wk)][k]; workerMatches(wk.id, pat) {
			return pat, true
		}
	}
	return nil, false
}

func (m *model) modelTerminating(wk *workerSim) bool {
	return m.terminating[m.queueNameOf(wk)+"\x00"+workerKeyOf(wk)]
}

// checkOperatorState compares the scheduler's drains and terminating
// flags with the model's (both directions), and forgets what belonged
// to size class queues and workers that no longer exist.
func (m *model) checkOperatorState(snap *scheduler.VerifSnapshot) {
	w := m.w
	existing := map[string]bool{}
	for _, i := range snap.Invocations {
		if len(i.IDs) == 0 {
			existing[i.QueueName] = true
		}
	}
	for qn := range m.drains {
		if !existing[qn] {
			delete(m.drains, qn)
		}
	}
	present := map[string]*scheduler.VerifWorker{}
	for _, vw := range snap.Workers {
		present[vw.QueueName+"\x00"+vw.Key] = vw
	}
	for k := range m.terminating {
		if present[k] == nil {
			delete(m.terminating, k)
		}
	}
	for k, vw := range present {
		if vw.Terminating != m.terminating[k] {
			w.failf("C05: worker %s of %s: the scheduler treats it as terminating = %v, but the TerminateWorkers calls made since it registered imply %v", vw.Key, vw.QueueName, vw.Terminating, m.terminating[k])
		}
	}
}

// compareDrainListing compares the drains listed through the public API
// with the model's. It calls into the scheduler, so it only runs right
// after a tick at the same instant (every due clean-up has run, the call
// changes nothing).
func (m *model) compareDrainListing() {
	w := m.w
	seen := map[string]bool{}
	for _, wk := range w.workers {
		qn := m.queueNameOf(wk)
		if seen[qn] {
			continue
		}
		seen[qn] = true
		if len(m.drains[qn]) == 0 && !m.drainsTouched {
			continue
		}
		resp, err := w.bq.ListDrains(context.Background(), &buildqueuestate.ListDrainsRequest{SizeClassQueueName: w.queueName(wk)})
		if status.Code(err) == codes.NotFound {
			// The size class queue is gone, and its drains with it.
			delete(m.drains, qn)
			continue
		}
		if err != nil {
			w.failf("C05: ListDrains(%s) failed with %v", qn, err)
		}
		got := map[string]bool{}
		for _, d := range resp.Drains {
			got[patternKey(d.WorkerIdPattern)] = true
		}
		for k := range m.drains[qn] {
			if !got[k] {
				w.failf("C05: drain %s was added to %s and not removed, but the scheduler does not list it (listed: %v)", k, qn, got)
			}
		}
		for k := range got {
			if _, ok := m.drains[qn][k]; !ok {
				w.failf("C05: the scheduler lists drain %s on %s, which was never added or has been removed", k, qn)
			}
		}
	}
	m.drainsTouched = false
}

func (m *model) onTerminate(tc *terminateCall) {
	m.label("terminate")
	if m.prev == nil {
		return
	}
	for _, vw := range m.prev.Workers {
		for _, wk := range m.w.workers {
			if workerKeyOf(wk) == vw.Key && m.queueNameOf(wk) == vw.QueueName && workerMatches(wk.id, tc.pattern) {
				// Every registered worker matching the pattern is
				// terminating from now on, until it is removed.
				m.terminating[vw.QueueName+"\x00"+vw.Key] = true
			}
			if workerKeyOf(wk) == vw.Key && workerMatches(wk.id, tc.pattern) && vw.CurrentTask != nil {
				if t := m.byOp[vw.CurrentTask.Operations[0].Name]; t != nil {
					tc.waitsFor = append(tc.waitsFor, terminateWait{task: t, requeues: t.requeues, workerKey: vw.QueueName + "\x00" + vw.Key, attempt: attemptKind(vw.CurrentTask.DesiredState)})
				}
			}
		}
	}
	if len(tc.waitsFor) > 0 {
		m.label("terminate_waits_for_task")
	}
}

// ---------------------------------------------------------------- naming helpers

func workerKeyOf(wk *workerSim) string {
	// encoding/json sorts map keys.
	if len(wk.id) == 2 {
		return fmt.Sprintf(`{"host":%q,"pool":%q}`, wk.id["host"], wk.id["pool"])
	}
	return fmt.Sprintf(`{"host":%q,"pool":%q,"slot":%q}`, wk.id["host"], wk.id["pool"], wk.id["slot"])
}

func (m *model) queueNameOf(wk *workerSim) string {
	q := m.w.cfg.Queues[wk.queue]
	return fmt.Sprintf("%s|%s|%d", q.Prefix, platformString(q.Platform), wk.sizeClass)
}

var platformStrings = []string{`{}`, `{"properties":[{"name":"os","value":"linux"}]}`, `{"properties":[{"name":"cpu","value":"arm"},{"name":"os","value":"linux"}]}`}

func platformString(i int) string { return platformStrings[i] }

func attemptKind(ds *remoteworker.DesiredState_Executing) string {
	ns := ds.GetAction().GetTimeout().AsDuration() % time.Second
	switch ns {
	case retryMark:
		return "retry"
	case bgMark:
		return "bg"
	}
	return "first"
}

func workerMatches(id, pattern map[string]string) bool {
	for k, v := range pattern {
		if id[k] != v {
			return false
		}
	}
	return true
}

// ---------------------------------------------------------------- the oracles

// observe runs after every quiescence.
func (m *model) observe() {
	w := m.w
	now := w.clk.Now()
	if m.autoTick {
		m.listQueues()
		m.justTicked = true
		// The cleanups run by that call may have woken up blocked calls.
		synctest.Wait()
		m.compareDrainListing()
	}

	snap, lockFree := w.bq.VerifCheckInvariants()
	if !lockFree {
		// The bubble can never drain once the lock is leaked (goroutines
		// blocked on a mutex are not durably blocked), so report and end
		// the process instead of going through rt.Fatalf and shrinking.
		fmt.Printf("VERIF-VIOLATION property=C14/C01: the scheduler lock is held at quiescence (a call returned or parked without releasing it)\nscript:\n%s", formatScript(w.script))
		os.Exit(1)
	}
	if len(snap.Verdict) > 0 {
		w.failf("C01: structural invariant violated: %s", strings.Join(snap.Verdict, "; "))
	}
	for _, d := range snap.Diagnostic {
		m.diagnostics[d] = true
	}

	m.cur = snap
	// --- learn tasks and operations from the snapshot.
	present := map[string]bool{}
	for _, vt := range snap.Tasks {
		var t *taskModel
		for _, o := range vt.Operations {
			if x := m.byOp[o.Name]; x != nil {
				t = x
			}
		}
		if t == nil {
			kind := "fg"
			if vt.DesiredState.Action != nil && attemptKind(vt.DesiredState) == "bg" {
				kind = "bg"
			}
			t = &taskModel{id: len(m.tasks), actionID: actionIDOf(vt.DesiredState), kind: kind, digest: vt.ActionDigest, opNames: map[string]bool{}, firstSeen: w.stepNo, attemptWorkers: map[string]map[int]bool{}, prevStage: remoteexecution.ExecutionStage_UNKNOWN}
			if vt.DesiredState.Action != nil {
				t.cacheable = !vt.DesiredState.Action.DoNotCache
			}
			// Digest key as used by the Execute bookkeeping.
			for _, e := range w.execs {
				if e.ActionID == t.actionID {
					t.digest = digestKey(e.Instance, w.templates[e.Template].hash)
				}
			}
			m.tasks = append(m.tasks, t)
		}
		for _, o := range vt.Operations {
			present[o.Name] = true
			if !t.opNames[o.Name] {
				t.opNames[o.Name] = true
				m.byOp[o.Name] = t
				m.ops[o.Name] = &opModel{name: o.Name, task: t}
				if vt.Stage == remoteexecution.ExecutionStage_EXECUTING {
					// A request deduplicated against a task that is
					// executing: its invocations start being served.
					m.markServed(vt.QueueName, o.InvocationIDs, now)
				}
			}
		}
		// Stage bookkeeping.
		if vt.Stage == remoteexecution.ExecutionStage_QUEUED && t.prevStage == remoteexecution.ExecutionStage_EXECUTING {
			t.retried = true
			t.requeues++
			m.label("retry_on_largest")
		}
		if vt.Stage == remoteexecution.ExecutionStage_COMPLETED && t.final == nil {
			if t.prevStage == remoteexecution.ExecutionStage_EXECUTING && !(t.acceptedCompletion != nil && t.acceptedStep == w.stepNo) {
				m.fairOnNonWorkerCompletion(t.prevWorkerKey, t.prevQueue)
			}
			for _, s := range w.streams {
				if name, ok := m.streamOp[s.id]; ok && t.opNames[name] && s.stream.gate.waiting() > 0 {
					m.label("completion_while_send_parked")
				}
			}
			t.final = vt.ExecuteResponse
			t.finalStep = w.stepNo
			t.finalTime = now
			m.checkFinalJustified(t, vt, now)
		}
		// A completion reported by the worker and accepted in this step
		// either finishes the task with that response, or (failure on the
		// first attempt with a learner asking for it) re-queues it on the
		// largest size class.
		if t.acceptedCompletion != nil && t.acceptedStep == w.stepNo {
			wantRetry := false
			for _, e := range w.execs {
				if e.ActionID == t.actionID && t.acceptedKind != "ok" && t.acceptedKind != "bare" && e.Plan.RetryOnFail && t.acceptedAttempt == "first" {
					wantRetry = true
				}
			}
			if wantRetry && vt.Stage == remoteexecution.ExecutionStage_COMPLETED {
				w.failf("C07: %s failed on its first attempt and the learner asked for a retry on the largest size class, but the task was completed with %v", t.actionID, vt.ExecuteResponse)
			}
			if !wantRetry && vt.Stage != remoteexecution.ExecutionStage_COMPLETED {
				w.failf("C02: worker reported completion (%s) of the %s attempt of %s and no retry was requested, but the task is in stage %s", t.acceptedKind, t.acceptedAttempt, t.actionID, vt.Stage)
			}
			if wantRetry {
				largest := vt.QueueName[strings.LastIndex(vt.QueueName, "|")+1:]
				exp := m.expectationOf(t)
				if exp != nil && largest != fmt.Sprint(exp.classes[len(exp.classes)-1]) {
					w.failf("C07: retry of %s must run on the largest size class %d, but the task is now in queue %s", t.actionID, exp.classes[len(exp.classes)-1], vt.QueueName)
				}
			}
		}
		if t.expectInternal == w.stepNo && t.expectInternal != 0 {
			if vt.Stage != remoteexecution.ExecutionStage_COMPLETED || codes.Code(vt.ExecuteResponse.GetStatus().GetCode()) != codes.Internal {
				w.failf("C06: worker asked %d times for task %s without reporting it (retry count %d), but the task was not failed with INTERNAL (stage %s, response %v)", t.mismatch, t.actionID, w.cfg.RetryCount, vt.Stage, vt.ExecuteResponse)
			}
		}
		attempt := ""
		if vt.DesiredState != nil && vt.DesiredState.Action != nil {
			attempt = attemptKind(vt.DesiredState)
		}
		if vt.WorkerKey != "" && (vt.WorkerKey != t.prevWorkerKey || vt.QueueName != t.prevQueue || attempt != t.prevAttempt || t.prevStage != remoteexecution.ExecutionStage_EXECUTING) {
			// The scheduler assigned the task to a worker in this step
			// (possibly without the worker learning it, when its
			// Synchronize call was cancelled at the same moment): the
			// redelivery count starts afresh.
			t.mismatch = 0
			t.expectInternal = 0
			t.reissues = 0
			for _, o := range vt.Operations {
				m.markServed(vt.QueueName, o.InvocationIDs, now)
			}
		}
		if attempt == "retry" && vt.Stage == remoteexecution.ExecutionStage_QUEUED {
			for _, e := range w.execs {
				if e.ActionID == t.actionID && vt.ExpectedDuration != e.Plan.RetryExpected {
					w.failf("C04/C07: the learner answered the failure of %s with an expected duration of %s for the retry, but the re-queued task carries %s", t.actionID, e.Plan.RetryExpected, vt.ExpectedDuration)
				}
			}
		}
		t.prevStage = vt.Stage
		t.prevQueue = vt.QueueName
		t.prevWorkerKey = vt.WorkerKey
		t.prevAttempt = attempt
	}
	for name, op := range m.ops {
		if !present[name] && !op.removed {
			op.removed = true
			m.removalNotEarly(op, now)
			t := op.task
			if t.final == nil {
				// The task disappeared together with its last operation
				// (abandoned) or the operation was detached from a shared
				// task; decide which.
				stillThere := false
				for n := range t.opNames {
					if present[n] {
						stillThere = true
					}
				}
				if !stillThere {
					if t.prevStage == remoteexecution.ExecutionStage_EXECUTING {
						m.fairOnNonWorkerCompletion(t.prevWorkerKey, t.prevQueue)
					}
					t.final = &remoteexecution.ExecuteResponse{Status: status.New(codes.Canceled, "gone").Proto()}
					t.finalStep = w.stepNo
					t.finalTime = now
					m.label("task_abandoned")
				}
			}
		}
	}

	m.checkLastServed(snap, now)
	m.checkOperatorState(snap)
	m.checkLearnerOutcomes()
	m.checkBackgroundBound(snap)
	m.observeStreams(snap, now)
	m.observeSyncs(snap, now)
	m.observeTerminates()
	m.checkWorkConservation(snap)
	m.checkDedupSnapshot(snap)
	m.checkTimeouts(snap, now)
	m.prev = snap
	// Desired states are shared with the scheduler and are rewritten in
	// place when a task is retried: remember which attempt each worker
	// held at the time of this snapshot.
	m.prevWorkerAttempt = map[string]string{}
	for _, vw := range snap.Workers {
		if vw.CurrentTask != nil {
			m.prevWorkerAttempt[vw.QueueName+"\x00"+vw.Key] = attemptKind(vw.CurrentTask.DesiredState)
		}
	}
}

// checkFinalJustified: C02 "either the ExecuteResponse supplied by the
// worker that last ran the task, or an error the scheduler itself
// produced for a stated cause".
func (m *model) checkFinalJustified(t *taskModel, vt *scheduler.VerifTask, now time.Time) {
	w := m.w
	f := t.final
	if t.acceptedCompletion != nil && t.acceptedStep == w.stepNo {
		if !proto.Equal(f, t.acceptedCompletion) {
			w.failf("C02: task %s completed in the step in which its worker reported %v, but the recorded final response is %v", t.actionID, t.acceptedCompletion, f)
		}
		m.label("final_by_worker")
		return
	}
	if t.killStatus != nil && t.killStep == w.stepNo {
		if !proto.Equal(f, &remoteexecution.ExecuteResponse{Status: t.killStatus}) {
			w.failf("C02: task %s was killed with %v, but the recorded final response is %v", t.actionID, t.killStatus, f)
		}
		m.label("final_by_kill")
		return
	}
	code := codes.Code(f.GetStatus().GetCode())
	if f.Result != nil {
		w.failf("C02: task %s completed with a result (%v) in step %d, but no worker reported a completion for it in that step", t.actionID, f, w.stepNo)
	}
	switch code {
	case codes.Unavailable:
		// Worker disappeared, or the queue was removed.
		if t.prevStage == remoteexecution.ExecutionStage_EXECUTING {
			var wk *workerSim
			for _, x := range w.workers {
				if workerKeyOf(x) == t.prevWorkerKey && m.queueNameOf(x) == t.prevQueue {
					wk = x
				}
			}
			if wk == nil {
				w.failf("C06: task %s failed with UNAVAILABLE while executing on unknown worker %s", t.actionID, t.prevWorkerKey)
			}
			if wk.inFlight != nil {
				w.failf("C06: task %s failed with UNAVAILABLE while its worker %d has a Synchronize call in progress", t.actionID, wk.idx)
			}
			if exp := wk.lastRet.Add(workerTimeout); now.Before(exp) {
				w.failf("C06: task %s failed with UNAVAILABLE at %s, but its worker %d only times out at %s", t.actionID, now.Sub(m.startAt), wk.idx, exp.Sub(m.startAt))
			}
			m.label("final_worker_timeout")
		} else {
			// Queued: only the removal of a worker-created queue explains it.
			for qi, q := range w.cfg.Queues {
				for _, sc := range q.SizeClasses {
					if fmt.Sprintf("%s|%s|%d", q.Prefix, platformString(q.Platform), sc) == t.prevQueue && q.Predeclared {
						w.failf("C06: task %s queued in predeclared queue %d failed with UNAVAILABLE: %v", t.actionID, qi, f)
					}
				}
			}
			for _, x := range w.workers {
				if m.queueNameOf(x) != t.prevQueue || !x.everSync {
					continue
				}
				if x.inFlight != nil {
					w.failf("C06: queue %s was removed (task %s failed UNAVAILABLE) while worker %d is synchronizing", t.prevQueue, t.actionID, x.idx)
				}
				if exp := x.lastRet.Add(workerTimeout + queueTimeout); now.Before(exp) {
					w.failf("C06: queue %s was removed at %s (task %s failed UNAVAILABLE), but worker %d keeps it alive until %s", t.prevQueue, now.Sub(m.startAt), t.actionID, x.idx, exp.Sub(m.startAt))
				}
			}
			m.label("final_queue_removed")
		}
	case codes.Canceled:
		// "No waiting clients" is the fate of a task whose LAST operation
		// is abandoned, and that operation goes with it: a cancelled task
		// that still has an operation was cancelled under a client that
		// never left.
		if len(vt.Operations) > 0 {
			names := []string{}
			for _, o := range vt.Operations {
				names = append(names, shortName(o.Name))
			}
			w.failf("C02/C03: task %s was completed with %v although its operations %v still exist: it can only be cancelled for lack of waiting clients when its last operation is abandoned", t.actionID, f.GetStatus(), names)
		}
		m.label("final_no_waiters")
	case codes.Internal:
		if t.expectInternal != w.stepNo {
			w.failf("C06: task %s failed with INTERNAL after its worker asked for it %d times without reporting it, but %d retries are configured: %v", t.actionID, t.mismatch, w.cfg.RetryCount, f.Status.Message)
		}
		m.label("final_retry_limit")
	default:
		w.failf("C02: task %s completed with scheduler-made status %s for which no cause exists in the history: %v", t.actionID, code, f)
	}
}

func (m *model) observeStreams(snap *scheduler.VerifSnapshot, now time.Time) {
	w := m.w
	for _, s := range w.streams {
		s.stream.mu.Lock()
		msgs := s.stream.msgs
		finished, err := s.finished, s.err
		s.stream.mu.Unlock()
		for i := m.seenMsgs[s.id]; i < len(msgs); i++ {
			msg := msgs[i]
			if m.streamDone[s.id] {
				w.failf("C02: stream %d received a message after its done message: %v", s.id, msg)
			}
			if i == 0 {
				m.streamOp[s.id] = msg.Name
				m.onStreamAttached(s, msg.Name, now)
				m.checkOperationInputs(s, msg.Name, snap)
			} else if msg.Name != m.streamOp[s.id] {
				w.failf("C02: stream %d received messages for operations %s and %s", s.id, m.streamOp[s.id], msg.Name)
			}
			var md remoteexecution.ExecuteOperationMetadata
			if msg.Metadata == nil || msg.Metadata.UnmarshalTo(&md) != nil {
				w.failf("C02: stream %d received a message without ExecuteOperationMetadata", s.id)
			}
			if i > 0 {
				var pmd remoteexecution.ExecuteOperationMetadata
				msgs[i-1].Metadata.UnmarshalTo(&pmd)
				if md.Stage < pmd.Stage {
					t := m.byOp[msg.Name]
					if !(pmd.Stage == remoteexecution.ExecutionStage_EXECUTING && md.Stage == remoteexecution.ExecutionStage_QUEUED && t != nil && m.retryRequested(t)) {
						w.failf("C02: stream %d saw stage go from %s to %s without a retry on the largest size class", s.id, pmd.Stage, md.Stage)
					}
					m.label("stream_saw_requeue")
				}
			}
			if msg.Done {
				m.streamDone[s.id] = true
				if md.Stage != remoteexecution.ExecutionStage_COMPLETED {
					w.failf("C02: stream %d done message has stage %s", s.id, md.Stage)
				}
				var resp remoteexecution.ExecuteResponse
				if msg.GetResponse() == nil || msg.GetResponse().UnmarshalTo(&resp) != nil {
					w.failf("C02: stream %d done message carries no ExecuteResponse", s.id)
				}
				t := m.byOp[msg.Name]
				if t == nil {
					w.failf("C02: stream %d is attached to operation %s, which was never listed", s.id, msg.Name)
				}
				if t.final == nil {
					w.failf("C02: stream %d received a done message for task %s, which the scheduler does not consider completed", s.id, t.actionID)
				}
				if !proto.Equal(&resp, t.final) {
					w.failf("C02/C03: stream %d received final response %v, but the task %s completed with %v", s.id, &resp, t.actionID, t.final)
				}
				if codes.Code(resp.GetStatus().GetCode()) == codes.Canceled && strings.Contains(resp.GetStatus().GetMessage(), "no longer has any waiting clients") {
					w.failf("C03: stream %d was told that task %s was cancelled for lack of waiting clients while it was waiting", s.id, t.actionID)
				}
				m.label("stream_done")
			} else if md.Stage == remoteexecution.ExecutionStage_COMPLETED {
				w.failf("C02: stream %d received a COMPLETED stage in a message that is not done", s.id)
			}
		}
		m.seenMsgs[s.id] = len(msgs)
		// C06: a stream blocked on a task is woken up by its completion;
		// Send never blocks here, so at quiescence it has its done message.
		if name, ok := m.streamOp[s.id]; ok && !finished && !s.broken && !s.cancelled && !m.streamDone[s.id] && s.stream.gate.waiting() == 0 {
			if t := m.byOp[name]; t != nil && t.final != nil {
				if op := m.ops[name]; op != nil && !op.removed {
					w.failf("C06: stream %d is still blocked although task %s completed in step %d with %v", s.id, t.actionID, t.finalStep, t.final)
				}
			}
		}
		if finished && !m.streamEnded[s.id] {
			m.streamEnded[s.id] = true
			s.endStep = w.stepNo
			m.onStreamEnded(s, err, now)
		}
	}
}

func (m *model) retryRequested(t *taskModel) bool {
	for _, l := range m.w.an.learners {
		if l.ActionID == t.actionID && l.Kind == "retry" {
			return true
		}
	}
	return false
}

func (m *model) onStreamAttached(s *streamSim, name string, now time.Time) {
	w := m.w
	op := m.ops[name]
	if op == nil {
		w.failf("C02: stream %d is attached to operation %s, which is not registered", s.id, name)
	}
	if op.removed {
		// An operation that the scheduler has dropped (no-waiter time-out,
		// completion clean-up) is gone for good: a stream that is still
		// being attached to it would wait on a task nobody else can see,
		// and its departure would run the operation's clean-up twice.
		w.failf("C02/C03: stream %d (%s) was attached to operation %s after the scheduler had removed it", s.id, s.kind, shortName(name))
	}
	op.waiters++
	op.removalAt = time.Time{}
	t := op.task
	if s.kind == "wait" {
		if s.waitName != name {
			w.failf("C02: WaitExecution(%s) attached to operation %s", s.waitName, name)
		}
		m.label("reattach")
		if op.waiters >= 2 {
			m.label("multi_waiter_op")
		}
		return
	}
	// Execute: deduplication and routing expectations (C03, C05).
	exp := m.execExpect[s.id]
	e := s.exec
	tpl := w.templates[e.Template]
	if len(w.cfg.Routers) > 0 {
		// Reference demultiplexing: longest registered router prefix with
		// identical platform, else the default router.
		want, bestLen := "r-default", -1
		for i, r := range w.cfg.Routers {
			if r.Platform == tpl.platform && isPrefix(r.Prefix, e.Instance) && len(r.Prefix) > bestLen {
				want, bestLen = fmt.Sprintf("r%d", i), len(r.Prefix)
			}
		}
		for _, vt := range m.cur.Tasks {
			for _, o := range vt.Operations {
				if o.Name == name {
					if len(o.InvocationIDs) == 0 || o.InvocationIDs[0] != invocationKeyFor(want) {
						w.failf("C05: Execute %s (instance %q, platform %d) must be handled by action router %s, but its operation is filed under invocation %v", e.ActionID, e.Instance, tpl.platform, want, shortPath(o.InvocationIDs))
					}
					m.label("demux_router_" + map[bool]string{true: "default", false: "registered"}[want == "r-default"])
				}
			}
		}
	}
	if !exp.queueFound && exp.liveBefore == nil {
		w.failf("C05: Execute %s (instance %q, platform %d) was accepted although no platform queue matches", e.ActionID, e.Instance, tpl.platform)
	}
	if exp.liveBefore != nil {
		if t != exp.liveBefore {
			w.failf("C03: Execute %s for cacheable digest %s did not attach to the live task %s; it got task %s", e.ActionID, t.digest, exp.liveBefore.actionID, t.actionID)
		}
		m.label("dedup_attach")
		if t.prevStage == remoteexecution.ExecutionStage_EXECUTING {
			m.label("dedup_while_executing")
		}
		if t.retried {
			m.label("dedup_after_retry")
		}
		return
	}
	if t.actionID != e.ActionID || t.firstSeen != w.stepNo {
		w.failf("C03: Execute %s (do_not_cache=%v) should have started a fresh execution, but was attached to task %s first seen in step %d", e.ActionID, tpl.doNotCache, t.actionID, t.firstSeen)
	}
	m.label("fresh_task")
}

func (m *model) onStreamEnded(s *streamSim, err error, now time.Time) {
	w := m.w
	name, attached := m.streamOp[s.id]
	if attached {
		op := m.ops[name]
		op.waiters--
		if op.waiters == 0 {
			op.removalAt = now.Add(noWaitersTimeout)
		}
	}
	if s.cancelled || s.broken {
		m.label("stream_left")
		return
	}
	if !attached {
		// Never attached: must have been rejected.
		code := status.Code(err)
		if err == nil {
			w.failf("C02: stream %d ended without error and without any message", s.id)
		}
		if s.kind == "wait" {
			if code != codes.NotFound {
				w.failf("C02: WaitExecution(%s) failed with %s", shortName(s.waitName), code)
			}
			if op := m.ops[s.waitName]; op != nil && !op.removed {
				w.failf("C06: WaitExecution(%s) returned NOT_FOUND, but the operation is still listed", shortName(s.waitName))
			}
			m.label("wait_not_found")
			return
		}
		exp := m.execExpect[s.id]
		if exp.queueFound || exp.liveBefore != nil {
			w.failf("C05: Execute %s was rejected with %v although platform queue %q/platform %d matches", s.exec.ActionID, err, exp.pqPrefix, exp.pqPlatform)
		}
		if code != exp.errCode {
			w.failf("C05: Execute %s without matching queue failed with %s, expected %s (%s after scheduler start)", s.exec.ActionID, code, exp.errCode, now.Sub(m.startAt))
		}
		m.label("rejected_" + code.String())
		return
	}
	if err != nil {
		w.failf("C02: stream %d was neither cancelled nor broken, but ended with error %v", s.id, err)
	}
	if !m.streamDone[s.id] {
		w.failf("C02: stream %d ended without error but without a done message", s.id)
	}
}

func (m *model) observeSyncs(snap *scheduler.VerifSnapshot, now time.Time) {
	w := m.w
	for _, wk := range w.workers {
		res := wk.inFlight
		if res == nil {
			continue
		}
		w.mu.Lock()
		returned := res.returned
		w.mu.Unlock()
		if !returned {
			continue
		}
		wk.inFlight = nil
		wk.lastRet = now
		res.retStep = w.stepNo
		res.retTime = now
		if wk.reject != "" {
			if status.Code(res.err) != codes.InvalidArgument {
				w.failf("C05: worker %d announced size class %d for a predeclared platform queue (%s), but its Synchronize call was answered %v / %v instead of INVALID_ARGUMENT", wk.idx, wk.sizeClass, wk.reject, res.resp, res.err)
			}
			m.label("worker_with_bad_size_class_refused")
			continue
		}
		if res.err != nil {
			m.label("sync_error_" + status.Code(res.err).String())
			continue
		}
		switch ds := res.resp.GetDesiredState().GetWorkerState().(type) {
		case *remoteworker.DesiredState_Idle:
			wk.believes = nil
			m.label("sync_idle")
			// C01: a worker is only told to be idle if no task is
			// assigned to it.
			for _, x := range snap.Workers {
				if x.Key == workerKeyOf(wk) && x.QueueName == m.queueNameOf(wk) && x.CurrentTask != nil {
					w.failf("C01: worker %d was told to go idle, but the scheduler has task %s assigned to it (stage %s)", wk.idx, actionIDOf(x.CurrentTask.DesiredState), x.CurrentTask.Stage)
				}
			}
		case *remoteworker.DesiredState_Executing_:
			ex := ds.Executing
			aid, kind := actionIDOf(ex), attemptKind(ex)
			// Find the worker in the snapshot.
			var vw *scheduler.VerifWorker
			for _, x := range snap.Workers {
				if x.Key == workerKeyOf(wk) && x.QueueName == m.queueNameOf(wk) {
					vw = x
				}
			}
			if vw == nil || vw.CurrentTask == nil {
				w.failf("C01: worker %d was told to execute %s, but the scheduler has no task assigned to it", wk.idx, aid)
			}
			if actionIDOf(vw.CurrentTask.DesiredState) != aid || !proto.Equal(vw.CurrentTask.DesiredState.ActionDigest, ex.ActionDigest) {
				w.failf("C01: worker %d was told to execute %s, but the task assigned to it is %s", wk.idx, aid, actionIDOf(vw.CurrentTask.DesiredState))
			}
			t := m.byOp[vw.CurrentTask.Operations[0].Name]
			if t == nil {
				w.failf("C01: worker %d was told to execute a task that has no listed operation", wk.idx)
			}
			if t.final != nil {
				w.failf("C01: worker %d was told to execute %s (%s attempt), but that task completed in step %d", wk.idx, aid, kind, t.finalStep)
			}
			akey := kind
			if t.attemptWorkers[akey] == nil {
				t.attemptWorkers[akey] = map[int]bool{}
			}
			newAssignment := !t.attemptWorkers[akey][wk.idx]
			t.attemptWorkers[akey][wk.idx] = true
			if newAssignment && m.prev != nil && res.step == w.stepNo {
				// The scheduler may have assigned this attempt to the
				// worker in an earlier step without the worker learning
				// it (its blocked Synchronize was cancelled at the very
				// moment of the hand-off): then this response is a
				// re-issue of an existing assignment, not a new one.
				for _, pw := range m.prev.Workers {
					if pw.Key == workerKeyOf(wk) && pw.QueueName == m.queueNameOf(wk) && pw.CurrentTask != nil &&
						len(pw.CurrentTask.Operations) > 0 && m.byOp[pw.CurrentTask.Operations[0].Name] == t && m.prevWorkerAttempt[pw.QueueName+"\x00"+pw.Key] == kind {
						newAssignment = false
						t.assigned = wk
						m.label("reissue_after_lost_response")
					}
				}
			}
			if len(t.attemptWorkers[akey]) > 1 {
				w.failf("C01: the %s attempt of task %s was handed to more than one worker: %v", kind, aid, t.attemptWorkers[akey])
			}
			if newAssignment && m.fair && m.prev != nil {
				var pw *scheduler.VerifWorker
				for _, x := range m.prev.Workers {
					if x.Key == workerKeyOf(wk) && x.QueueName == m.queueNameOf(wk) {
						pw = x
					}
				}
				switch {
				case pw != nil && pw.Blocked:
					m.fairCheckHandOff(wk, vw.CurrentTask, now)
				case (pw == nil || pw.CurrentTask == nil) && res.step == w.stepNo:
					m.fairCheckPick(wk, vw.CurrentTask, now, vw.StickinessStart)
				default:
					// Completion and pick in one call: not validated;
					// take the stickiness state from the scheduler.
					m.label("fair_unvalidated_assignment")
					fw := m.fairWorkerOf(wk)
					for l := range fw.starts {
						if l < len(vw.StickinessStart) {
							fw.starts[l] = time.Unix(0, vw.StickinessStart[l])
						}
					}
					fw.lastInv = nil
				}
			}
			if newAssignment {
				t.assigned = wk
				t.reissues = 0
				m.label("assignment")
				if kind == "retry" {
					m.label("assignment_retry")
				}
				if kind == "bg" {
					m.label("assignment_background")
				}
				m.checkRouting(t, wk, ex, kind)
				// Drained or terminating workers never receive new tasks
				// (judged by the operator calls that were made, not by
				// the scheduler's own bookkeeping of them).
				if pat, drained := m.modelDrained(wk); drained {
					w.failf("C05: worker %d received new task %s although drain %v is active on its queue", wk.idx, aid, pat)
				}
				if m.modelTerminating(wk) {
					w.failf("C05: worker %d received new task %s although it was marked terminating", wk.idx, aid)
				}
			} else {
				t.reissues++
				m.label("reissue")
				if t.reissues > w.cfg.RetryCount {
					w.failf("C06: task %s was re-issued to worker %d %d times, but only %d retries are configured", aid, wk.idx, t.reissues, w.cfg.RetryCount)
				}
			}
			if wk.believes != nil && !proto.Equal(wk.believes.ActionDigest, ex.ActionDigest) {
				m.label("preempt_other_action")
			}
			wk.believes = proto.Clone(ex).(*remoteworker.DesiredState_Executing)
		default:
			m.label("sync_continue")
			// "Continue": only valid for a worker that reported the task it
			// is assigned.
			if wk.believes == nil {
				w.failf("C01: worker %d reported no running task, but was told to continue", wk.idx)
			}
			ok := false
			for _, x := range snap.Workers {
				if x.Key == workerKeyOf(wk) && x.QueueName == m.queueNameOf(wk) && x.CurrentTask != nil && proto.Equal(x.CurrentTask.DesiredState.ActionDigest, wk.believes.ActionDigest) {
					ok = true
				}
			}
			if !ok {
				w.failf("C01: worker %d was told to continue executing %v, which is not the task assigned to it", wk.idx, wk.believes.ActionDigest)
			}
		}
	}
}

// checkRouting: C05 for a new assignment.
func (m *model) checkRouting(t *taskModel, wk *workerSim, ex *remoteworker.DesiredState_Executing, kind string) {
	w := m.w
	var e *execInfo
	var exp *execExpectation
	for _, s := range w.streams {
		if s.kind == "execute" && s.exec.ActionID == t.actionID {
			e, exp = s.exec, m.execExpect[s.id]
		}
	}
	if e == nil || exp == nil || !exp.queueFound {
		w.failf("C05: task %s reached worker %d, but no accepted Execute call created it", t.actionID, wk.idx)
	}
	q := w.cfg.Queues[wk.queue]
	if q.Prefix != exp.pqPrefix || q.Platform != exp.pqPlatform {
		w.failf("C05: task %s (instance %q, platform %d) should be served by queue prefix %q platform %d, but was handed to worker %d of queue prefix %q platform %d", t.actionID, e.Instance, exp.pqPlatform, exp.pqPrefix, exp.pqPlatform, wk.idx, q.Prefix, q.Platform)
	}
	want := exp.sizeClass
	switch kind {
	case "retry":
		want = exp.classes[len(exp.classes)-1]
	case "bg":
		// The size class list may have changed between Execute and the
		// completion that asked for the background run: the choice
		// refers to the list handed to Succeeded().
		classes := exp.classes
		for _, l := range w.an.learners {
			if l.Kind == "background" && l.ActionID == t.actionID && len(l.Classes) > 0 {
				classes = l.Classes
			}
		}
		want = classes[e.Plan.BgChoice%len(classes)]
	}
	if wk.sizeClass != want {
		w.failf("C05: %s attempt of task %s was selected for size class %d (classes %v), but was handed to worker %d of size class %d", kind, t.actionID, want, exp.classes, wk.idx, wk.sizeClass)
	}
	full := ex.InstanceNameSuffix
	if q.Prefix != "" {
		if full == "" {
			full = q.Prefix
		} else {
			full = q.Prefix + "/" + full
		}
	}
	if full != e.Instance {
		w.failf("C05: task %s was requested for instance %q, but worker prefix %q + suffix %q gives %q", t.actionID, e.Instance, q.Prefix, ex.InstanceNameSuffix, full)
	}
	if kind == "bg" && !ex.Action.DoNotCache {
		w.failf("C07: background learning run of %s does not have do_not_cache set", t.actionID)
	}
	wantTimeout := time.Duration(e.Plan.TimeoutSec) * time.Second
	if got := ex.Action.Timeout.AsDuration() / time.Second * time.Second; got != wantTimeout {
		w.failf("C07: %s attempt of task %s has timeout %s, the analyzer said %s", kind, t.actionID, ex.Action.Timeout.AsDuration(), wantTimeout)
	}
}

func (m *model) expectationOf(t *taskModel) *execExpectation {
	for _, s := range m.w.streams {
		if s.kind == "execute" && s.exec.ActionID == t.actionID {
			return m.execExpect[s.id]
		}
	}
	return nil
}

func (m *model) observeTerminates() {
	for _, tc := range m.w.terms {
		m.w.mu.Lock()
		r, rerr := tc.returned, tc.err
		m.w.mu.Unlock()
		if r {
			// ... and not before: a call that returned successfully
			// promises that the matching workers are idle.
			if rerr == nil && !tc.judged {
				tc.judged = true
				for _, tw := range tc.waitsFor {
					if tw.task.final == nil && tw.task.requeues == tw.requeues && tw.task.prevStage == remoteexecution.ExecutionStage_EXECUTING &&
						tw.task.prevQueue+"\x00"+tw.task.prevWorkerKey == tw.workerKey && tw.task.prevAttempt == tw.attempt {
						m.w.failf("C06: TerminateWorkers(%v) issued in step %d returned successfully although task %s is still running on a matching worker", tc.pattern, tc.step, tw.task.actionID)
					}
				}
				if len(tc.waitsFor) > 0 {
					m.label("terminate_returned_after_tasks_left")
				}
			}
			continue
		}
		// C06: TerminateWorkers returns once every task that was running
		// on a matching worker has completed (or left that worker).
		pending := false
		for _, tw := range tc.waitsFor {
			if tw.task.final == nil && tw.task.requeues == tw.requeues && tw.task.prevStage == remoteexecution.ExecutionStage_EXECUTING &&
				tw.task.prevQueue+"\x00"+tw.task.prevWorkerKey == tw.workerKey && tw.task.prevAttempt == tw.attempt {
				pending = true
			}
		}
		if !pending {
			desc := ""
			for _, tw := range tc.waitsFor {
				desc += fmt.Sprintf(" [task %s final=%v requeues=%d->%d stage=%s]", tw.task.actionID, tw.task.final, tw.requeues, tw.task.requeues, tw.task.prevStage)
			}
			m.w.failf("C06: TerminateWorkers(%v) issued in step %d is still blocked although all %d tasks it waited for have left their workers:%s", tc.pattern, tc.step, len(tc.waitsFor), desc)
		}
	}
	// C06: a Synchronize call blocked waiting for work returns at the
	// latest when the idle synchronization interval has passed.
	for _, wk := range m.w.workers {
		if res := wk.inFlight; res != nil {
			m.w.mu.Lock()
			returned := res.returned
			m.w.mu.Unlock()
			if !returned && !m.lateTick && m.w.clk.Now().After(res.startTime.Add(idleSyncInterval)) {
				m.w.failf("C06: Synchronize of worker %d has been blocked since %s, longer than the idle synchronization interval", wk.idx, res.startTime.Sub(m.startAt))
			}
		}
	}
}

// checkWorkConservation: C04/C05 "no task stays queued while an undrained
// worker of its queue is waiting".
func (m *model) checkWorkConservation(snap *scheduler.VerifSnapshot) {
	w := m.w
	queued := map[string]*scheduler.VerifTask{}
	for _, vt := range snap.Tasks {
		if vt.Stage == remoteexecution.ExecutionStage_QUEUED {
			queued[vt.QueueName] = vt
		}
	}
	if len(queued) == 0 {
		return
	}
	// Every Synchronize call that has not returned at quiescence is a
	// worker waiting: for work, or (when drained) for its drain to be
	// removed. Whether it is drained or terminating is decided by the
	// model, so a wake-up that is lost when a drain is removed shows up
	// here as well.
	for _, wk := range w.workers {
		res := wk.inFlight
		if res == nil {
			continue
		}
		w.mu.Lock()
		returned := res.returned
		w.mu.Unlock()
		if returned {
			continue
		}
		vt := queued[m.queueNameOf(wk)]
		if vt == nil {
			continue
		}
		if _, drained := m.modelDrained(wk); drained {
			m.label("drained_worker_waits_while_task_queued")
			continue
		}
		if m.modelTerminating(wk) {
			continue
		}
		w.failf("C04/C05: task %s is queued in %s while undrained worker %d of that queue is blocked waiting for work", actionIDOf(vt.DesiredState), vt.QueueName, wk.idx)
	}
}

// checkDedupSnapshot: C03 at most one live cacheable task per digest.
func (m *model) checkDedupSnapshot(snap *scheduler.VerifSnapshot) {
	seen := map[string]string{}
	for _, vt := range snap.Tasks {
		if vt.Stage == remoteexecution.ExecutionStage_COMPLETED || vt.DesiredState.Action == nil || vt.DesiredState.Action.DoNotCache {
			continue
		}
		aid := actionIDOf(vt.DesiredState)
		if other, ok := seen[vt.ActionDigest]; ok {
			m.w.failf("C03: two live tasks (%s and %s) exist for cacheable action digest %s", other, aid, vt.ActionDigest)
		}
		seen[vt.ActionDigest] = aid
	}
}

// checkTimeouts: C06 "not later than the next lock-taking call after the
// deadline" (only when the case ticks after every step) for workers and
// abandoned operations.
func (m *model) checkTimeouts(snap *scheduler.VerifSnapshot, now time.Time) {
	if !m.justTicked {
		return
	}
	m.justTicked = false
	w := m.w
	m.checkQueueSet(now)
	// ... and not before: a worker that synchronized less than the worker
	// time-out ago is still registered.
	for _, wk := range w.workers {
		if !wk.everSync || wk.reject != "" || wk.inFlight != nil || !now.Before(wk.lastRet.Add(workerTimeout)) {
			continue
		}
		found := false
		for _, vw := range snap.Workers {
			if workerKeyOf(wk) == vw.Key && m.queueNameOf(wk) == vw.QueueName {
				found = true
			}
		}
		if !found {
			w.failf("C06: worker %d last synchronized at %s and may stay away until %s, but is no longer registered at %s", wk.idx, wk.lastRet.Sub(m.startAt), wk.lastRet.Add(workerTimeout).Sub(m.startAt), now.Sub(m.startAt))
		}
	}
	for _, vw := range snap.Workers {
		for _, wk := range w.workers {
			if workerKeyOf(wk) == vw.Key && m.queueNameOf(wk) == vw.QueueName && wk.inFlight == nil && wk.everSync {
				if exp := wk.lastRet.Add(workerTimeout); !now.Before(exp) {
					w.failf("C06: worker %d last synchronized at %s and should have been removed at %s, but is still registered at %s", wk.idx, wk.lastRet.Sub(m.startAt), exp.Sub(m.startAt), now.Sub(m.startAt))
				}
			}
		}
	}
	for _, name := range m.knownOperationNames() {
		op := m.ops[name]
		if op.removed || op.task.kind == "bg" {
			continue
		}
		if op.waiters == 0 && !op.removalAt.IsZero() && !now.Before(op.removalAt) {
			w.failf("C06: operation %s has had no waiters since %s and should have been removed at %s, but still exists at %s", shortName(name), op.removalAt.Add(-noWaitersTimeout).Sub(m.startAt), op.removalAt.Sub(m.startAt), now.Sub(m.startAt))
		}
	}
}

// checkOperationRemovalNotEarly is called when an operation disappears.
func (m *model) removalNotEarly(op *opModel, now time.Time) {
	if op.task.kind == "bg" {
		return
	}
	if op.waiters > 0 {
		m.w.failf("C06: operation %s disappeared while %d streams are attached to it", shortName(op.name), op.waiters)
	}
	if !op.removalAt.IsZero() && now.Before(op.removalAt) {
		m.w.failf("C06: operation %s was removed at %s, before its no-waiter timeout at %s", shortName(op.name), now.Sub(m.startAt), op.removalAt.Sub(m.startAt))
	}
}

// checkLearnerOutcomes: C07 "every learner receives exactly one terminal
// call matching what happened". Every terminal call made in this step is
// compared with what the history says ended that attempt: a completion
// reported by the worker that ran it (accepted by the scheduler in this
// step) gives Succeeded(virtual execution duration) for status OK and exit
// code 0 and Failed(timed out <=> DEADLINE_EXCEEDED) otherwise; an attempt
// that ended for any other reason (operator kill, worker or queue gone,
// retry limit, no waiting clients, no room for a background run) gives
// Abandoned.
func (m *model) checkLearnerOutcomes() {
	w := m.w
	for _, l := range w.an.learners {
		if len(l.Terminal) == 0 || l.checked {
			continue
		}
		l.checked = true
		attempt := map[string]string{"first": "first", "retry": "retry", "background": "bg"}[l.Kind]
		var t *taskModel
		for _, x := range m.tasks {
			if x.actionID == l.ActionID && (x.kind == "bg") == (l.Kind == "background") {
				t = x
			}
		}
		want := "Abandoned"
		if t != nil && t.acceptedCompletion != nil && t.acceptedStep == l.TerminalAt && t.acceptedAttempt == attempt {
			if t.acceptedKind == "ok" || t.acceptedKind == "bare" {
				want = "Succeeded"
			} else {
				want = "Failed"
			}
		}
		got := l.Terminal[0]
		if got != want {
			why := "the attempt did not end with a completion reported by its worker in that step"
			if want != "Abandoned" {
				why = fmt.Sprintf("its worker reported completion (%s) in that step", t.acceptedKind)
			}
			w.failf("C07: learner %d (%s attempt of %s) received %s in step %d, but %s, which calls for %s", l.ID, l.Kind, l.ActionID, got, l.TerminalAt, why, want)
		}
		switch want {
		case "Succeeded":
			if d := t.acceptedCompletion.GetResult().GetExecutionMetadata().GetVirtualExecutionDuration().AsDuration(); l.Duration != d {
				w.failf("C07: learner %d (%s attempt of %s) received Succeeded(%s), but the worker reported a virtual execution duration of %s", l.ID, l.Kind, l.ActionID, l.Duration, d)
			}
			m.label("learner_succeeded_matches")
		case "Failed":
			if l.TimedOut != (t.acceptedKind == "deadline") {
				w.failf("C07: learner %d (%s attempt of %s) received Failed(timedOut=%v), but the worker reported %s", l.ID, l.Kind, l.ActionID, l.TimedOut, t.acceptedKind)
			}
			m.label("learner_failed_matches")
		default:
			m.label("learner_abandoned_matches")
		}
	}
}

// checkBackgroundBound: C07 "background learning runs are bounded in
// number": at no time more background runs are queued in a size class
// queue than its platform queue is configured to allow (none if zero).
func (m *model) checkBackgroundBound(snap *scheduler.VerifSnapshot) {
	queued := map[string]int{}
	for _, vt := range snap.Tasks {
		if vt.Stage == remoteexecution.ExecutionStage_QUEUED && vt.DesiredState != nil && vt.DesiredState.Action != nil && attemptKind(vt.DesiredState) == "bg" {
			queued[vt.QueueName]++
		}
	}
	for qn, n := range queued {
		limit := -1
		for _, q := range m.w.cfg.Queues {
			if strings.HasPrefix(qn, q.Prefix+"|"+platformString(q.Platform)+"|") {
				limit = q.MaxBG
			}
		}
		if limit >= 0 && n > limit {
			m.w.failf("C07: %d background learning runs are queued in %s, but at most %d are allowed", n, qn, limit)
		}
		if n == limit && limit > 0 {
			m.label("background_backlog_full")
		}
	}
}

// checkQueueSet: C06/C05 "a worker-created queue without workers is removed
// after its timeout" - not before and not after - "only predeclared queues
// ... may remain", and a queue that has workers (or had them less than the
// worker plus queue time-out ago) exists. The expected set is computed from
// the history alone and compared with the ListPlatformQueues result of the
// tick that precedes this observation.
func (m *model) checkQueueSet(now time.Time) {
	w := m.w
	listed := map[string]bool{}
	for _, pq := range m.queues {
		for _, scq := range pq.SizeClassQueues {
			listed[fmt.Sprintf("%s|%s|%d", pq.Name.InstanceNamePrefix, platformString(platformIndex(pq.Name.Platform)), scq.SizeClass)] = true
		}
	}
	expected := map[string]string{}
	for qi, q := range w.cfg.Queues {
		for _, sc := range q.SizeClasses {
			qn := fmt.Sprintf("%s|%s|%d", q.Prefix, platformString(q.Platform), sc)
			if q.Predeclared {
				expected[qn] = "it is predeclared"
				continue
			}
			for _, wk := range w.workers {
				if wk.queue != qi || wk.sizeClass != sc || !wk.everSync || wk.reject != "" {
					continue
				}
				if wk.inFlight != nil {
					expected[qn] = fmt.Sprintf("worker %d is synchronizing", wk.idx)
				} else if until := wk.lastRet.Add(workerTimeout + queueTimeout); now.Before(until) {
					expected[qn] = fmt.Sprintf("worker %d synchronized at %s, which keeps the queue until %s", wk.idx, wk.lastRet.Sub(m.startAt), until.Sub(m.startAt))
				}
			}
		}
	}
	// Size class queues that workers of predeclared platform queues
	// created for classes of their own.
	for _, wk := range w.workers {
		q := w.cfg.Queues[wk.queue]
		if !q.Predeclared || wk.reject != "" || !wk.everSync {
			continue
		}
		qn := m.queueNameOf(wk)
		if _, ok := expected[qn]; ok {
			continue
		}
		if wk.inFlight != nil {
			expected[qn] = fmt.Sprintf("worker %d is synchronizing", wk.idx)
		} else if until := wk.lastRet.Add(workerTimeout + queueTimeout); now.Before(until) {
			expected[qn] = fmt.Sprintf("worker %d synchronized at %s, which keeps the queue until %s", wk.idx, wk.lastRet.Sub(m.startAt), until.Sub(m.startAt))
		}
	}
	for qn, why := range expected {
		if !listed[qn] {
			w.failf("C06: size class queue %s is not listed at %s although %s", qn, now.Sub(m.startAt), why)
		}
	}
	for qn := range listed {
		if _, ok := expected[qn]; !ok {
			w.failf("C06: size class queue %s is still listed at %s although it is not predeclared and every worker that synchronized with it did so more than the worker time-out plus the queue time-out ago", qn, now.Sub(m.startAt))
		}
	}
	m.label("queue_set_compared")
}

// checkOperationInputs: the fair-order reference model (C04) takes an
// operation's priority, invocation path, expected duration and queueing
// time from the scheduler's own records. This check ties those records to
// what the client and the size class selector actually supplied: the first
// Execute stream attached to an operation is the one that created it.
func (m *model) checkOperationInputs(s *streamSim, name string, snap *scheduler.VerifSnapshot) {
	op := m.ops[name]
	if s.kind != "execute" || op == nil || op.inputsChecked {
		return
	}
	op.inputsChecked = true
	e := s.exec
	w := m.w
	for _, vt := range snap.Tasks {
		for _, o := range vt.Operations {
			if o.Name != name {
				continue
			}
			if o.Priority != e.Priority {
				w.failf("C04: operation %s was created by Execute %s with priority %d, but the scheduler recorded priority %d", shortName(name), e.ActionID, e.Priority, o.Priority)
			}
			comps := strings.Split(e.InvPath, "/")
			ids := o.InvocationIDs
			if len(w.cfg.Routers) > 0 && len(ids) > 0 {
				// Demultiplexed worlds: the router's marker comes first
				// (checked by the routing oracle).
				ids = ids[1:]
			}
			depth := w.cfg.InvDepth
			if w.cfg.MixedDepth && depth >= 1 && isPrefix("a", e.Instance) {
				depth--
			}
			if len(ids) != depth {
				w.failf("C04: operation %s of Execute %s is filed under %d invocation keys, %d key extractors apply to it", shortName(name), e.ActionID, len(ids), depth)
			}
			for l, id := range ids {
				if l < len(comps) && !strings.Contains(strings.ReplaceAll(id, " ", ""), `"value":"`+comps[l]+`"`) {
					w.failf("C04: operation %s of Execute %s (invocation path %s) is filed under invocation key %s at level %d", shortName(name), e.ActionID, e.InvPath, id, l)
				}
			}
			if actionIDOf(vt.DesiredState) == e.ActionID && vt.DesiredState != nil {
				// The task was created for this very request.
				if vt.Stage == remoteexecution.ExecutionStage_QUEUED && vt.ExpectedDuration != e.Plan.Expected {
					w.failf("C04: the selector answered Execute %s with an expected duration of %s, but the queued task carries %s", e.ActionID, e.Plan.Expected, vt.ExpectedDuration)
				}
				if qt := vt.DesiredState.QueuedTimestamp.AsTime(); !qt.Equal(w.clk.Now()) && e.Step == w.stepNo {
					w.failf("C04: task of Execute %s was queued at %s, but carries queued timestamp %s", e.ActionID, w.clk.Now().Sub(m.startAt), qt.Sub(m.startAt))
				}
				m.label("operation_inputs_checked_fresh_task")
			} else {
				m.label("operation_inputs_checked_attached")
			}
		}
	}
}

func servedKey(queue string, ids []string) string {
	return queue + "\x00" + strings.Join(ids, "\x01")
}

// markServed records that an operation of the invocation with these keys
// started executing now: the invocation and all its ancestors up to the
// root of the size class queue count as served at this instant.
func (m *model) markServed(queue string, ids []string, now time.Time) {
	for l := 0; l <= len(ids); l++ {
		m.lastServed[servedKey(queue, ids[:l])] = now.UnixNano()
	}
}

// checkLastServed: the least-recently-served tie-break of C04 rests on the
// time at which each invocation last had an operation started. The model
// derives it from the history (creation of the invocation, every start of
// one of its operations incl. requests attached to an executing task and
// queued tasks completed through a temporary worker) and the scheduler's
// record must agree, so that the reference model of the fair order does
// not inherit a wrong time stamp from the code under test.
func (m *model) checkLastServed(snap *scheduler.VerifSnapshot, now time.Time) {
	// m.lastServed holds, for this step only, the invocations of which an
	// operation started executing now (markServed); m.lastSeenServed the
	// value the scheduler reported in the previous snapshot.
	present := map[string]bool{}
	for _, inv := range snap.Invocations {
		k := servedKey(inv.QueueName, inv.IDs)
		present[k] = true
		if len(inv.IDs) == 0 {
			// The root of a size class queue has no siblings to tie with.
			continue
		}
		prev, known := m.lastSeenServed[k]
		switch {
		case m.lastServed[k] != 0 && inv.LastOperationStarted != now.UnixNano():
			m.w.failf("C04: an operation of invocation %v of %s started executing at %s, but the scheduler records %s as the time its last operation started (least-recently-served tie-break)", inv.IDs, inv.QueueName, now.Sub(m.startAt), time.Unix(0, inv.LastOperationStarted).Sub(m.startAt))
		case !known && inv.LastOperationStarted != now.UnixNano():
			m.w.failf("C04: invocation %v of %s was created at %s, but the scheduler records %s as the time its last operation started", inv.IDs, inv.QueueName, now.Sub(m.startAt), time.Unix(0, inv.LastOperationStarted).Sub(m.startAt))
		case known && inv.LastOperationStarted < prev:
			m.w.failf("C04: invocation %v of %s: the recorded time of its last started operation went back from %s to %s", inv.IDs, inv.QueueName, time.Unix(0, prev).Sub(m.startAt), time.Unix(0, inv.LastOperationStarted).Sub(m.startAt))
		case inv.LastOperationStarted > now.UnixNano():
			m.w.failf("C04: invocation %v of %s: the recorded time of its last started operation lies in the future", inv.IDs, inv.QueueName)
		}
		m.lastSeenServed[k] = inv.LastOperationStarted
	}
	for k := range m.lastSeenServed {
		if !present[k] {
			delete(m.lastSeenServed, k)
		}
	}
	m.lastServed = map[string]int64{}
}

package schedsim

import (
	"fmt"
	"os"
	"sync/atomic"
	"time"
)

// A leaked scheduler lock is normally seen by the TryLock probe that runs
// at every quiescence. When the leaking call returns while other calls of
// the same step already wait for the lock, quiescence is never reached:
// goroutines blocked on a mutex are not durably blocked, so
// synctest.Wait() does not return and the case would only end with the
// test binary's deadline (an inconclusive run). This watchdog lives
// outside the bubble, on the real clock: when the current case has made
// no progress for a long time and the scheduler lock cannot be taken at
// any of a series of probes, nobody can ever release it (the scheduler
// never blocks while holding its lock), and the leak is reported.
var (
	watchdogWorld    atomic.Pointer[world]
	watchdogProgress atomic.Uint64
)

const (
	watchdogStall  = 40 * time.Second
	watchdogProbes = 10
)

func startWatchdog() {
	go func() {
		last := watchdogProgress.Load()
		since := time.Now()
		for {
			time.Sleep(2 * time.Second)
			if p := watchdogProgress.Load(); p != last {
				last, since = p, time.Now()
				continue
			}
			w := watchdogWorld.Load()
			if w == nil || time.Since(since) < watchdogStall {
				continue
			}
			held := 0
			for i := 0; i < watchdogProbes; i++ {
				if watchdogProgress.Load() != last || watchdogWorld.Load() != w {
					break
				}
				if _, free := w.bq.VerifCheckInvariants(); free {
					break
				}
				held++
				time.Sleep(500 * time.Millisecond)
			}
			if held == watchdogProbes {
				fmt.Printf("VERIF-VIOLATION property=C14/C01: the scheduler lock has been held for %s of real time while no call makes progress (a call returned or parked without releasing it, and the calls waiting for the lock can never continue)\nscript:\n%s", time.Since(since).Round(time.Second), formatScript(w.script))
				os.Exit(1)
			}
			since = time.Now()
		}
	}()
}

package schedsim

import (
	"context"
	"fmt"
	"sort"
	"strings"
	"sync"
	"testing/synctest"
	"time"

	remoteexecution "github.com/bazelbuild/remote-apis/build/bazel/remote/execution/v2"
	"github.com/buildbarn/bb-remote-execution/pkg/proto/buildqueuestate"
	"github.com/buildbarn/bb-remote-execution/pkg/proto/remoteworker"
	"github.com/buildbarn/bb-remote-execution/pkg/scheduler"
	"github.com/buildbarn/bb-remote-execution/pkg/scheduler/invocation"
	"github.com/buildbarn/bb-remote-execution/pkg/scheduler/platform"
	"github.com/buildbarn/bb-remote-execution/pkg/scheduler/routing"
	"github.com/buildbarn/bb-storage/pkg/digest"
	"github.com/buildbarn/bb-storage/pkg/util"
	"google.golang.org/grpc/codes"
	"google.golang.org/grpc/metadata"
	"google.golang.org/grpc/status"
	"google.golang.org/protobuf/proto"
	"google.golang.org/protobuf/types/known/anypb"
	"google.golang.org/protobuf/types/known/durationpb"
	"google.golang.org/protobuf/types/known/emptypb"
	"google.golang.org/protobuf/types/known/wrapperspb"
	"pgregory.net/rapid"

	status_pb "google.golang.org/genproto/googleapis/rpc/status"
)

// ---------------------------------------------------------------- configuration

type queueSpec struct {
	Prefix      string   `json:"prefix"`
	Platform    int      `json:"platform"`
	Predeclared bool     `json:"predeclared"`
	SizeClasses []uint32 `json:"size_classes"`
	Stickiness  []int    `json:"stickiness_s,omitempty"`
	MaxBG       int      `json:"max_bg,omitempty"`
	BGPriority  int32    `json:"bg_priority,omitempty"`
}

type worldConfig struct {
	Queues   []queueSpec `json:"queues"`
	InvDepth int         `json:"inv_depth"`
	// MixedDepth: requests whose instance name starts with "a" are routed
	// through an action router with one invocation key extractor less, so
	// that one size class queue holds invocations with both directly
	// queued operations and queued child invocations (C04: direct
	// operations go first).
	MixedDepth bool `json:"mixed_depth,omitempty"`
	// WorkerClasses, if set, overrides the size class worker i announces.
	// In a predeclared platform queue a class that is not predeclared but
	// below the maximum creates a removable size class queue of its own
	// (the list handed to the selector grows and shrinks with it); a class
	// above the maximum, or class 0 where size classes are in use, must
	// be refused.
	WorkerClasses []uint32    `json:"worker_classes,omitempty"`
	// NestedWorkerIDs: workers that share worker 0's size class queue carry
	// worker 0's complete ID plus a "slot" entry.
	NestedWorkerIDs bool `json:"nested_worker_ids,omitempty"`
	RetryCount    int         `json:"retry_count"`
	NActions      int         `json:"n_actions"`
	NWorkers      int         `json:"n_workers"`
	Routers       []queueSpec `json:"routers,omitempty"` // only Prefix and Platform are used
}

const (
	updateInterval    = 30 * time.Second
	noWaitersTimeout  = 60 * time.Second
	queueTimeout      = 900 * time.Second
	busySyncInterval  = 10 * time.Second
	idleSyncInterval  = 120 * time.Second
	workerTimeout     = 75 * time.Second
	maximumMessageSiz = 1 << 20
)

var platforms = []*remoteexecution.Platform{
	{},
	{Properties: []*remoteexecution.Platform_Property{{Name: "os", Value: "linux"}}},
	{Properties: []*remoteexecution.Platform_Property{{Name: "cpu", Value: "arm"}, {Name: "os", Value: "linux"}}},
}

// ---------------------------------------------------------------- script

// step is one executed action of a case; the list of steps is the
// human-readable script of the case.
type step struct {
	N   int    `json:"n"`
	Op  string `json:"op"`
	Arg string `json:"arg,omitempty"`
	Out string `json:"out,omitempty"`
}

// ---------------------------------------------------------------- actors

type actionTemplate struct {
	idx        int
	action     *remoteexecution.Action
	hash       string
	sizeBytes  int64
	doNotCache bool
	platform   int
}

type execInfo struct {
	ActionID string
	Template int
	Instance string
	Priority int32
	InvPath  string
	Plan     *sizePlan
	Step     int
	Digest   string // instance-qualified digest string as the scheduler sees it
}

type streamSim struct {
	*stream
	kind              string // "execute" or "wait"
	exec              *execInfo
	waitName          string
	parkedAuth        bool
	cancelled, broken bool
	startStep         int
	endStep           int
}

type syncResult struct {
	step     int
	req      *remoteworker.SynchronizeRequest
	resp     *remoteworker.SynchronizeResponse
	err      error
	returned bool
	retStep  int
	retTime  time.Time

	startTime time.Time
}

type workerSim struct {
	idx       int
	id        map[string]string
	queue     int
	sizeClass uint32

	reject string // not empty: the scheduler has to refuse this worker (reason)

	believes *remoteworker.DesiredState_Executing // nil = idle
	inFlight *syncResult
	cancel   context.CancelFunc
	everSync bool
	lastRet  time.Time
	history  []*syncResult
}

type terminateCall struct {
	pattern  map[string]string
	cancel   context.CancelFunc
	returned bool
	err      error
	step     int
	waitsFor []terminateWait
	judged   bool
}

type terminateWait struct {
	task      *taskModel
	requeues  int
	workerKey string // queue name + worker key of the worker that ran the task
	attempt   string
}

type world struct {
	rt  *rapid.T
	cfg worldConfig
	clk *simClock
	bq  *scheduler.InMemoryBuildQueue
	cas *fakeCAS
	an  *scriptedAnalyzer
	df  map[string]digest.Function

	mu        sync.Mutex
	stepNo    int
	script    []step
	templates []*actionTemplate
	streams   []*streamSim
	workers   []*workerSim
	execs     []*execInfo
	terms     []*terminateCall
	nextExec  int

	invPaths      []string // override of the invocation path pool
	fixedPriority bool
	// skipCacheLookup: the next Execute carries skip_cache_lookup.
	skipCacheLookup bool

	alwaysRetry bool
	// injection, when set, runs once at the next lock-held injection
	// point (operation name generation, learner callbacks).
	slowFetchTarget time.Time // not zero: the clock will read this when the Execute under way looks at the scheduler's state
	doneHook        func()
	doneHookRan     bool
	injection       func()
	injectionRan    bool
	execAuthGate    gate
	killAuthGate    gate
	pendingKills    []*pendingKill

	m *model
}

// ---------------------------------------------------------------- invocation key extractor

type pathKeyExtractor struct{ level int }

func (e pathKeyExtractor) ExtractKey(ctx context.Context, md *remoteexecution.RequestMetadata) (invocation.Key, error) {
	parts := strings.Split(md.GetToolInvocationId(), "/")
	v := ""
	if e.level < len(parts) {
		v = parts[e.level]
	}
	a, err := anypb.New(wrapperspb.String(v))
	if err != nil {
		return "", err
	}
	return invocation.NewKey(a)
}

func invocationKeyFor(v string) string {
	a, _ := anypb.New(wrapperspb.String(v))
	k, _ := invocation.NewKey(a)
	return string(k)
}

type constKeyExtractor struct{ v string }

func (e constKeyExtractor) ExtractKey(ctx context.Context, md *remoteexecution.RequestMetadata) (invocation.Key, error) {
	a, err := anypb.New(wrapperspb.String(e.v))
	if err != nil {
		return "", err
	}
	return invocation.NewKey(a)
}

// ---------------------------------------------------------------- construction

func newWorld(rt *rapid.T, cfg worldConfig) *world {
	w := &world{rt: rt, cfg: cfg, clk: newSimClock(), cas: &fakeCAS{actions: map[string]*remoteexecution.Action{}}, df: map[string]digest.Function{}}
	w.an = &scriptedAnalyzer{w: w}
	extractors := make([]invocation.KeyExtractor, 0, cfg.InvDepth)
	for i := 0; i < cfg.InvDepth; i++ {
		extractors = append(extractors, pathKeyExtractor{level: i})
	}
	var router routing.ActionRouter = routing.NewSimpleActionRouter(platform.ActionKeyExtractor, extractors, w.an)
	if len(cfg.Routers) > 0 {
		// C05: requests are demultiplexed over several action routers by
		// instance name prefix and platform; each router stamps its
		// identity into the first invocation key, which makes the choice
		// observable through the operation's invocation name.
		mk := func(marker string) routing.ActionRouter {
			ex := append([]invocation.KeyExtractor{constKeyExtractor{marker}}, extractors...)
			return routing.NewSimpleActionRouter(platform.ActionKeyExtractor, ex, w.an)
		}
		demux := routing.NewDemultiplexingActionRouter(platform.ActionKeyExtractor, mk("r-default"))
		for i, r := range cfg.Routers {
			if err := demux.RegisterActionRouter(util.Must(digest.NewInstanceName(r.Prefix)), platforms[r.Platform], mk(fmt.Sprintf("r%d", i))); err != nil {
				panic(fmt.Sprintf("harness: cannot register action router %+v: %v", r, err))
			}
		}
		router = demux
	} else if cfg.MixedDepth && cfg.InvDepth >= 1 {
		demux := routing.NewDemultiplexingActionRouter(platform.ActionKeyExtractor, router)
		shallow := routing.NewSimpleActionRouter(platform.ActionKeyExtractor, extractors[:cfg.InvDepth-1], w.an)
		for pi := range platforms {
			if err := demux.RegisterActionRouter(util.Must(digest.NewInstanceName("a")), platforms[pi], shallow); err != nil {
				panic(fmt.Sprintf("harness: cannot register the shallow action router: %v", err))
			}
		}
		router = demux
	}
	uuids := &counterUUIDs{w: w}
	w.bq = scheduler.NewInMemoryBuildQueue(w.cas, w.clk, uuids.next, &scheduler.InMemoryBuildQueueConfiguration{
		ExecutionUpdateInterval:              updateInterval,
		OperationWithNoWaitersTimeout:        noWaitersTimeout,
		PlatformQueueWithNoWorkersTimeout:    queueTimeout,
		BusyWorkerSynchronizationInterval:    busySyncInterval,
		GetIdleWorkerSynchronizationInterval: func() time.Duration { return idleSyncInterval },
		WorkerTaskRetryCount:                 cfg.RetryCount,
		WorkerWithNoSynchronizationsTimeout:  workerTimeout,
	}, maximumMessageSiz, router, gatedAuthorizer{&w.execAuthGate}, allowAuthorizer{}, gatedAuthorizer{&w.killAuthGate}, allowAuthorizer{})
	for _, q := range cfg.Queues {
		if q.Predeclared {
			limits := make([]time.Duration, 0, len(q.Stickiness))
			for _, s := range q.Stickiness {
				limits = append(limits, time.Duration(s)*time.Second)
			}
			if err := w.bq.RegisterPredeclaredPlatformQueue(util.Must(digest.NewInstanceName(q.Prefix)), platforms[q.Platform], limits, q.MaxBG, q.BGPriority, q.SizeClasses); err != nil {
				panic(fmt.Sprintf("harness: cannot register predeclared queue %+v: %v", q, err))
			}
		}
	}
	// Action templates: distinct command digests, platforms cycle over
	// the platforms used by the queues.
	for i := 0; i < cfg.NActions; i++ {
		q := cfg.Queues[i%len(cfg.Queues)]
		a := &remoteexecution.Action{
			CommandDigest:   &remoteexecution.Digest{Hash: fmt.Sprintf("%064x", i+1), SizeBytes: 10},
			InputRootDigest: &remoteexecution.Digest{Hash: fmt.Sprintf("%064x", 1000+i), SizeBytes: 20},
			Platform:        platforms[q.Platform],
			DoNotCache:      i%3 == 2,
			Timeout:         durationpb.New(3600 * time.Second),
		}
		data, _ := proto.Marshal(a)
		f := digest.MustNewFunction("", remoteexecution.DigestFunction_SHA256)
		g := f.NewGenerator(int64(len(data)))
		g.Write(data)
		d := g.Sum()
		w.templates = append(w.templates, &actionTemplate{idx: i, action: a, hash: d.GetHashString(), sizeBytes: d.GetSizeBytes(), doNotCache: a.DoNotCache, platform: q.Platform})
		w.cas.actions[d.GetHashString()] = a
	}
	for i := 0; i < cfg.NWorkers; i++ {
		qi := i % len(cfg.Queues)
		q := cfg.Queues[qi]
		sc := q.SizeClasses[(i/len(cfg.Queues))%len(q.SizeClasses)]
		reject := ""
		if i < len(cfg.WorkerClasses) && q.Predeclared {
			sc = cfg.WorkerClasses[i]
			if max := q.SizeClasses[len(q.SizeClasses)-1]; sc > max {
				reject = "size class above the predeclared maximum"
			} else if max > 0 && sc < 1 {
				reject = "no size class although the platform queue uses them"
			}
		}
		id := map[string]string{"host": fmt.Sprintf("w%d", i), "pool": fmt.Sprintf("p%d", i%2)}
		if cfg.NestedWorkerIDs && i > 0 && reject == "" && qi == w.workers[0].queue && sc == w.workers[0].sizeClass {
			// The complete ID of worker 0 is a proper subset of this
			// worker's ID: a pattern that names worker 0 exactly matches
			// this worker too.
			id = map[string]string{"host": "w0", "pool": "p0", "slot": fmt.Sprintf("%d", i)}
		}
		w.workers = append(w.workers, &workerSim{
			idx:       i,
			id:        id,
			queue:     qi,
			sizeClass: sc,
			reject:    reject,
		})
	}
	w.m = newModel(w)
	return w
}

func (w *world) record(op, arg string) *step {
	w.script = append(w.script, step{N: w.stepNo, Op: op, Arg: arg})
	return &w.script[len(w.script)-1]
}

func (w *world) failf(format string, args ...any) {
	panic(violation{msg: fmt.Sprintf(format, args...)})
}

type violation struct{ msg string }

// quiesce waits until every goroutine of the case is parked and then
// runs the oracles.
func (w *world) quiesce() {
	synctest.Wait()
	watchdogProgress.Add(1)
	w.m.observe()
}

// ---------------------------------------------------------------- client steps

func (w *world) newStream(kind string) *streamSim {
	ctx, cancel := context.WithCancel(context.Background())
	s := &streamSim{stream: &stream{id: len(w.streams), ctx: ctx, cancel: cancel, w: w}, kind: kind, startStep: w.stepNo, endStep: -1}
	w.streams = append(w.streams, s)
	return s
}

var instanceNames = []string{"", "a", "a/b", "a/b/c", "x"}
var priorities = []int32{-200, -100, 0, 0, 0, 1, 100, 2147483647, -2147483648}
var invPaths = []string{"i/p/x", "i/p/y", "i/q/x", "j/p/x", "j/q/y", "k/r/z"}

func (w *world) stepExecute(instancePool []string) {
	t := w.templates[rapid.IntRange(0, len(w.templates)-1).Draw(w.rt, "template")]
	inst := rapid.SampledFrom(instancePool).Draw(w.rt, "instance")
	prio := rapid.SampledFrom(priorities).Draw(w.rt, "priority")
	paths := invPaths
	if w.invPaths != nil {
		paths = w.invPaths
	}
	inv := rapid.SampledFrom(paths).Draw(w.rt, "invocation")
	if w.fixedPriority {
		prio = 0
	}
	plan := &sizePlan{
		ActionID:      fmt.Sprintf("x%d", w.nextExec),
		Choice:        rapid.IntRange(0, 2).Draw(w.rt, "sizeChoice"),
		Expected:      time.Duration(rapid.SampledFrom([]int{0, 1, 1, 5, 60}).Draw(w.rt, "expected")) * time.Second,
		TimeoutSec:    rapid.SampledFrom([]int{10, 60, 600}).Draw(w.rt, "timeout"),
		RetryOnFail:   rapid.Bool().Draw(w.rt, "retryOnFail"),
		RetryExpected: time.Duration(rapid.SampledFrom([]int{0, 1, 5, 60, 120}).Draw(w.rt, "retryExpected")) * time.Second,
		BgOnSuccess:   rapid.IntRange(0, 3).Draw(w.rt, "bg") == 0,
		BgChoice:      rapid.IntRange(0, 2).Draw(w.rt, "bgChoice"),
	}
	if w.alwaysRetry {
		plan.Choice = 0
		plan.RetryOnFail = true
		plan.BgOnSuccess = false
	}
	w.nextExec++
	// skip_cache_lookup is the front end's business (it bypasses the Action
	// Cache lookup); the scheduler treats such a request like any other,
	// in-flight deduplication included.
	w.skipCacheLookup = rapid.IntRange(0, 3).Draw(w.rt, "skipCacheLookup") == 0
	w.execute(t, inst, prio, inv, plan)
	w.skipCacheLookup = false
}

func (w *world) execute(t *actionTemplate, inst string, prio int32, inv string, plan *sizePlan) *streamSim {
	w.m.pre()
	e := &execInfo{ActionID: plan.ActionID, Template: t.idx, Instance: inst, Priority: prio, InvPath: inv, Plan: plan, Step: w.stepNo}
	w.execs = append(w.execs, e)
	s := w.newStream("execute")
	s.exec = e
	rmd, _ := proto.Marshal(&remoteexecution.RequestMetadata{ActionId: plan.ActionID, ToolInvocationId: inv, TargetId: "//t:" + plan.ActionID})
	ctx := metadata.NewIncomingContext(s.stream.ctx, metadata.Pairs("build.bazel.remote.execution.v2.requestmetadata-bin", string(rmd)))
	s.stream.ctx = context.WithValue(ctx, planKey{}, plan)
	w.record("execute", fmt.Sprintf("stream=%d action=%s template=%d(dnc=%v,platform=%d) instance=%q priority=%d invocation=%s plan={choice:%d expected:%s timeout:%ds retry:%v bg:%v bgChoice:%d}",
		s.id, plan.ActionID, t.idx, t.doNotCache, t.platform, inst, prio, inv, plan.Choice, plan.Expected, plan.TimeoutSec, plan.RetryOnFail, plan.BgOnSuccess, plan.BgChoice))
	req := &remoteexecution.ExecuteRequest{
		InstanceName:    inst,
		ActionDigest:    &remoteexecution.Digest{Hash: t.hash, SizeBytes: t.sizeBytes},
		ExecutionPolicy: &remoteexecution.ExecutionPolicy{Priority: prio},
		SkipCacheLookup: w.skipCacheLookup,
	}
	if w.skipCacheLookup {
		w.m.label("execute_with_skip_cache_lookup")
	}
	w.m.onExecuteStart(s)
	go func() {
		err := w.bq.Execute(req, s.stream)
		s.mu.Lock()
		s.finished, s.err = true, err
		s.mu.Unlock()
	}()
	w.quiesce()
	return s
}

func (w *world) stepWait() {
	w.m.pre()
	names := w.m.knownOperationNames()
	names = append(names, "00000000-0000-4000-8000-999999999999")
	name := rapid.SampledFrom(names).Draw(w.rt, "opName")
	s := w.newStream("wait")
	s.waitName = name
	w.record("waitExecution", fmt.Sprintf("stream=%d name=%s", s.id, shortName(name)))
	w.m.onWaitStart(s)
	go func() {
		err := w.bq.WaitExecution(&remoteexecution.WaitExecutionRequest{Name: name}, s.stream)
		s.mu.Lock()
		s.finished, s.err = true, err
		s.mu.Unlock()
	}()
	w.quiesce()
}

func (w *world) liveStreams() []*streamSim {
	var out []*streamSim
	for _, s := range w.streams {
		s.mu.Lock()
		f := s.finished
		s.mu.Unlock()
		if !f {
			out = append(out, s)
		}
	}
	return out
}

func (w *world) stepCancelStream() bool {
	live := w.liveStreams()
	if len(live) == 0 {
		return false
	}
	s := live[rapid.IntRange(0, len(live)-1).Draw(w.rt, "stream")]
	w.m.pre()
	w.record("cancelStream", fmt.Sprintf("stream=%d", s.id))
	s.cancelled = true
	s.cancel()
	w.quiesce()
	return true
}

func (w *world) stepBreakStream() bool {
	var live []*streamSim
	for _, s := range w.liveStreams() {
		// Only streams that already received their first message (see
		// stepParkSend): a stream whose very first Send fails attaches and
		// detaches without the client ever learning the operation name.
		if _, ok := w.m.streamOp[s.id]; ok {
			live = append(live, s)
		}
	}
	if len(live) == 0 {
		return false
	}
	s := live[rapid.IntRange(0, len(live)-1).Draw(w.rt, "stream")]
	w.record("breakStream", fmt.Sprintf("stream=%d (next Send fails)", s.id))
	s.broken = true
	s.stream.mu.Lock()
	s.stream.sendErr = status.Error(codes.Unavailable, "client connection lost")
	s.stream.mu.Unlock()
	w.quiesce()
	return true
}

// ---------------------------------------------------------------- worker steps

func (w *world) queueName(wk *workerSim) *buildqueuestate.SizeClassQueueName {
	q := w.cfg.Queues[wk.queue]
	return &buildqueuestate.SizeClassQueueName{
		PlatformQueueName: &buildqueuestate.PlatformQueueName{InstanceNamePrefix: q.Prefix, Platform: platforms[q.Platform]},
		SizeClass:         wk.sizeClass,
	}
}

func (w *world) idleWorkers() []*workerSim {
	var out []*workerSim
	for _, wk := range w.workers {
		if wk.inFlight == nil {
			out = append(out, wk)
		}
	}
	return out
}

// "bare" is a completion without status and without ActionResult: success
// (status OK, exit code 0) in its shortest encoding.
var completionKinds = []string{"ok", "ok", "ok", "exit1", "deadline", "internal", "bare"}

func makeResponse(kind string, salt int) *remoteexecution.ExecuteResponse {
	md := &remoteexecution.ExecutedActionMetadata{Worker: fmt.Sprintf("salt%d", salt), VirtualExecutionDuration: durationpb.New(time.Duration(salt%7+1) * time.Second)}
	switch kind {
	case "bare":
		return &remoteexecution.ExecuteResponse{Message: fmt.Sprintf("r%d", salt)}
	case "ok":
		return &remoteexecution.ExecuteResponse{Result: &remoteexecution.ActionResult{ExitCode: 0, ExecutionMetadata: md}, Message: fmt.Sprintf("r%d", salt)}
	case "exit1":
		return &remoteexecution.ExecuteResponse{Result: &remoteexecution.ActionResult{ExitCode: 1, ExecutionMetadata: md}, Message: fmt.Sprintf("r%d", salt)}
	case "deadline":
		return &remoteexecution.ExecuteResponse{Result: &remoteexecution.ActionResult{ExecutionMetadata: md}, Status: status.New(codes.DeadlineExceeded, "timed out").Proto(), Message: fmt.Sprintf("r%d", salt)}
	default:
		return &remoteexecution.ExecuteResponse{Status: status.New(codes.Internal, "worker failure").Proto(), Message: fmt.Sprintf("r%d", salt)}
	}
}

// stepSync issues one Synchronize call of a generated kind from a worker
// that has no call outstanding.
func (w *world) stepSync(kinds []string) bool {
	cands := w.idleWorkers()
	if len(cands) == 0 {
		return false
	}
	wk := cands[rapid.IntRange(0, len(cands)-1).Draw(w.rt, "worker")]
	kind := rapid.SampledFrom(kinds).Draw(w.rt, "syncKind")
	prefer := rapid.IntRange(0, 7).Draw(w.rt, "preferIdle") == 0
	completion := ""
	if kind == "completed" {
		completion = rapid.SampledFrom(completionKinds).Draw(w.rt, "completion")
	}
	w.sync(wk, kind, prefer, completion)
	return true
}

func (w *world) sync(wk *workerSim, kind string, prefer bool, completion string) {
	w.m.pre()
	q := w.cfg.Queues[wk.queue]
	req := &remoteworker.SynchronizeRequest{
		WorkerId:           wk.id,
		InstanceNamePrefix: q.Prefix,
		Platform:           platforms[q.Platform],
		SizeClass:          wk.sizeClass,
		PreferBeingIdle:    prefer,
	}
	desc := kind
	wrong := &remoteexecution.Digest{Hash: strings.Repeat("f", 64), SizeBytes: 1}
	if kind == "wrongExecuting" || kind == "wrongCompleted" {
		// Mostly a digest that differs from the assigned task's in one
		// component only: same hash with another size, or same size with
		// another hash.
		var base *remoteexecution.Digest
		if w.m.prev != nil {
			for _, x := range w.m.prev.Workers {
				if x.Key == workerKeyOf(wk) && x.QueueName == w.m.queueNameOf(wk) && x.CurrentTask != nil {
					base = x.CurrentTask.DesiredState.ActionDigest
				}
			}
		}
		if base == nil && wk.believes != nil {
			base = wk.believes.ActionDigest
		}
		if base != nil {
			switch rapid.SampledFrom([]string{"unrelated", "same_hash_other_size", "same_hash_other_size", "same_size_other_hash"}).Draw(w.rt, "wrongDigest") {
			case "same_hash_other_size":
				wrong = &remoteexecution.Digest{Hash: base.GetHash(), SizeBytes: base.GetSizeBytes() + 1}
				desc += "(same hash, other size)"
				w.m.label("wrong_digest_same_hash_other_size")
			case "same_size_other_hash":
				wrong = &remoteexecution.Digest{Hash: strings.Repeat("e", 64), SizeBytes: base.GetSizeBytes()}
				desc += "(same size, other hash)"
				w.m.label("wrong_digest_same_size_other_hash")
			}
		}
	}
	switch kind {
	case "auto":
		// Protocol-following: report what the worker believes.
		if wk.believes == nil {
			kind = "idle"
		} else {
			kind = "executing"
		}
		desc = "auto:" + kind
	}
	switch kind {
	case "idle":
		req.CurrentState = &remoteworker.CurrentState{WorkerState: &remoteworker.CurrentState_Idle{Idle: &emptypb.Empty{}}}
		wk.believes = nil
	case "executing":
		if wk.believes == nil {
			// Nothing to report: behave as a fresh idle worker.
			req.CurrentState = &remoteworker.CurrentState{WorkerState: &remoteworker.CurrentState_Idle{Idle: &emptypb.Empty{}}}
			desc += "(idle)"
		} else {
			req.CurrentState = &remoteworker.CurrentState{WorkerState: &remoteworker.CurrentState_Executing_{Executing: &remoteworker.CurrentState_Executing{
				ActionDigest:   wk.believes.ActionDigest,
				ExecutionState: &remoteworker.CurrentState_Executing_Started{Started: &emptypb.Empty{}},
			}}}
		}
	case "completed":
		if wk.believes == nil {
			req.CurrentState = &remoteworker.CurrentState{WorkerState: &remoteworker.CurrentState_Idle{Idle: &emptypb.Empty{}}}
			desc += "(idle)"
		} else {
			ck := completion
			resp := makeResponse(ck, w.stepNo)
			desc += ":" + ck
			req.CurrentState = &remoteworker.CurrentState{WorkerState: &remoteworker.CurrentState_Executing_{Executing: &remoteworker.CurrentState_Executing{
				ActionDigest:   wk.believes.ActionDigest,
				ExecutionState: &remoteworker.CurrentState_Executing_Completed{Completed: resp},
			}}}
			w.m.onWorkerReportsCompletion(wk, wk.believes, resp, ck)
			wk.believes = nil
		}
	case "wrongExecuting":
		req.CurrentState = &remoteworker.CurrentState{WorkerState: &remoteworker.CurrentState_Executing_{Executing: &remoteworker.CurrentState_Executing{
			ActionDigest:   wrong,
			ExecutionState: &remoteworker.CurrentState_Executing_Started{Started: &emptypb.Empty{}},
		}}}
		wk.believes = &remoteworker.DesiredState_Executing{ActionDigest: wrong}
	case "wrongCompleted":
		req.CurrentState = &remoteworker.CurrentState{WorkerState: &remoteworker.CurrentState_Executing_{Executing: &remoteworker.CurrentState_Executing{
			ActionDigest:   wrong,
			ExecutionState: &remoteworker.CurrentState_Executing_Completed{Completed: makeResponse("ok", w.stepNo)},
		}}}
		wk.believes = nil
	case "noState":
		req.CurrentState = nil
	}
	ctx, cancel := context.WithCancel(context.Background())
	res := &syncResult{step: w.stepNo, req: req, startTime: w.clk.Now()}
	wk.inFlight = res
	wk.cancel = cancel
	wk.history = append(wk.history, res)
	wk.everSync = true
	st := w.record("sync", fmt.Sprintf("worker=%d(queue=%d,sc=%d) kind=%s preferIdle=%v", wk.idx, wk.queue, wk.sizeClass, desc, prefer))
	w.m.onSyncStart(wk, res, kind)
	go func() {
		resp, err := w.bq.Synchronize(&hookCtx{Context: ctx, w: w}, req)
		w.mu.Lock()
		res.resp, res.err, res.returned = resp, err, true
		w.mu.Unlock()
	}()
	w.quiesce()
	w.mu.Lock()
	if res.returned {
		st.Out = describeSyncResult(res)
	} else {
		st.Out = "blocked"
	}
	w.mu.Unlock()
}

func describeSyncResult(res *syncResult) string {
	if res.err != nil {
		return "error: " + status.Convert(res.err).Code().String()
	}
	switch ds := res.resp.GetDesiredState().GetWorkerState().(type) {
	case *remoteworker.DesiredState_Executing_:
		return fmt.Sprintf("execute %s timeout=%s", actionIDOf(ds.Executing), ds.Executing.GetAction().GetTimeout().AsDuration())
	case *remoteworker.DesiredState_Idle:
		return "idle"
	default:
		return "continue"
	}
}

// actionIDOf extracts the action_id that the Execute call that created
// the task put in its RequestMetadata.
func actionIDOf(ds *remoteworker.DesiredState_Executing) string {
	for _, a := range ds.GetAuxiliaryMetadata() {
		var md remoteexecution.RequestMetadata
		if a.MessageIs(&md) {
			if a.UnmarshalTo(&md) == nil {
				return md.ActionId
			}
		}
	}
	return ""
}

// stepSyncDuplicate sends a second Synchronize call under the worker ID of
// a worker whose call is still blocked in the scheduler (waiting for work
// or, when drained, for its drain to be removed). The scheduler has to
// refuse it: a worker is only ever talked to through one call, otherwise
// two calls would act on one worker record (C01). Nothing else may change:
// the first call stays blocked and the snapshot is the same.
func (w *world) stepSyncDuplicate() bool {
	var cands []*workerSim
	for _, wk := range w.workers {
		if res := wk.inFlight; res != nil {
			w.mu.Lock()
			r := res.returned
			w.mu.Unlock()
			if !r {
				cands = append(cands, wk)
			}
		}
	}
	if len(cands) == 0 {
		return false
	}
	wk := cands[rapid.IntRange(0, len(cands)-1).Draw(w.rt, "worker")]
	w.m.pre()
	// pre() may have woken the blocked call up (a time-out that was due).
	w.mu.Lock()
	stillBlocked := !wk.inFlight.returned
	w.mu.Unlock()
	if !stillBlocked {
		return true
	}
	q := w.cfg.Queues[wk.queue]
	req := &remoteworker.SynchronizeRequest{
		WorkerId:           wk.id,
		InstanceNamePrefix: q.Prefix,
		Platform:           platforms[q.Platform],
		SizeClass:          wk.sizeClass,
		CurrentState:       &remoteworker.CurrentState{WorkerState: &remoteworker.CurrentState_Idle{Idle: &emptypb.Empty{}}},
	}
	st := w.record("syncDuplicate", fmt.Sprintf("worker=%d(queue=%d,sc=%d) while its call of step %d is still blocked", wk.idx, wk.queue, wk.sizeClass, wk.inFlight.step))
	before, _ := w.bq.VerifCheckInvariants()
	var resp *remoteworker.SynchronizeResponse
	var err error
	returned := false
	ctx, cancel := context.WithCancel(context.Background())
	defer cancel()
	go func() {
		r, e := w.bq.Synchronize(ctx, req)
		w.mu.Lock()
		resp, err, returned = r, e, true
		w.mu.Unlock()
	}()
	synctest.Wait()
	w.mu.Lock()
	ret, gotErr, gotResp := returned, err, resp
	firstStillBlocked := !wk.inFlight.returned
	w.mu.Unlock()
	if !ret {
		cancel()
		synctest.Wait()
		w.failf("C01: a second Synchronize call for worker %d was admitted (it blocks) while the first one is still blocked", wk.idx)
	}
	if status.Code(gotErr) != codes.ResourceExhausted {
		w.failf("C01: a second Synchronize call for worker %d, made while the first one is still blocked, was answered %v / %v instead of being refused with RESOURCE_EXHAUSTED", wk.idx, gotResp, gotErr)
	}
	st.Out = "error: " + status.Code(gotErr).String()
	if !firstStillBlocked {
		w.failf("C01: the refused second Synchronize call for worker %d made the first, blocked call return", wk.idx)
	}
	after, _ := w.bq.VerifCheckInvariants()
	if before != nil && after != nil && (before.Counts != after.Counts || len(before.Workers) != len(after.Workers)) {
		w.failf("C01: the refused second Synchronize call for worker %d changed the scheduler's state: %+v -> %+v", wk.idx, before.Counts, after.Counts)
	}
	w.m.label("duplicate_synchronize_refused")
	w.m.observe()
	return true
}

func (w *world) stepCancelSync() bool {
	var cands []*workerSim
	for _, wk := range w.workers {
		if wk.inFlight != nil {
			cands = append(cands, wk)
		}
	}
	if len(cands) == 0 {
		return false
	}
	wk := cands[rapid.IntRange(0, len(cands)-1).Draw(w.rt, "worker")]
	w.m.pre()
	w.record("cancelSync", fmt.Sprintf("worker=%d", wk.idx))
	wk.cancel()
	w.quiesce()
	return true
}

// ---------------------------------------------------------------- injection after the lock was dropped

// hookCtx is the context handed to a Synchronize call. The scheduler asks
// for its Done() channel when it sets up the select in which a worker
// waits - after it has released its lock and, for a drained worker, after
// it has captured the channel it is going to wait on. A one-shot hook
// armed by the harness runs there, in the worker's own goroutine: an
// operator call that lands exactly between "lock released" and "waiting".
type hookCtx struct {
	context.Context
	w *world
}

func (c *hookCtx) Done() <-chan struct{} {
	if f := c.w.doneHook; f != nil {
		c.w.doneHook = nil
		c.w.doneHookRan = true
		f()
	}
	return c.Context.Done()
}

// stepSyncRacingDrainChange lets an idle worker synchronize (it is going to
// wait: drained, or idle without queued work) and changes the drains of its
// queue at the moment the call has released the lock and is about to wait.
// A drain removed there must still wake the worker up (or it must not go
// to sleep at all); a drain added there must not let it keep a task.
func (w *world) stepSyncRacingDrainChange() bool {
	cands := w.idleWorkers()
	if len(cands) == 0 {
		return false
	}
	wk := cands[rapid.IntRange(0, len(cands)-1).Draw(w.rt, "worker")]
	if wk.reject != "" || wk.believes != nil {
		return false
	}
	add := rapid.IntRange(0, 3).Draw(w.rt, "addInsteadOfRemove") == 0
	var pat map[string]string
	if add {
		pat = drainPatterns[rapid.IntRange(0, 4).Draw(w.rt, "pattern")]
	} else {
		// Remove a drain the model knows (preferably one matching the worker).
		qn := w.m.queueNameOf(wk)
		keys := make([]string, 0, len(w.m.drains[qn]))
		for k := range w.m.drains[qn] {
			keys = append(keys, k)
		}
		if len(keys) == 0 {
			return false
		}
		sort.Strings(keys)
		pat = w.m.drains[qn][keys[rapid.IntRange(0, len(keys)-1).Draw(w.rt, "drain")]]
	}
	op := "removeDrain"
	if add {
		op = "addDrain"
	}
	rec := w.record("raceDrainChangeWithSynchronize", fmt.Sprintf("%s %v on the queue of worker %d lands after its next Synchronize has released the lock and before it waits", op, pat, wk.idx))
	w.doneHookRan = false
	w.doneHook = func() {
		req := &buildqueuestate.AddOrRemoveDrainRequest{SizeClassQueueName: w.queueName(wk), WorkerIdPattern: pat}
		var err error
		if add {
			_, err = w.bq.AddDrain(context.Background(), req)
		} else {
			_, err = w.bq.RemoveDrain(context.Background(), req)
		}
		if err == nil {
			w.m.onDrain(wk, pat, add)
		}
	}
	w.sync(wk, "idle", false, "")
	if w.doneHookRan {
		rec.Out = "raced"
		w.m.label("drain_changed_between_unlock_and_wait")
	} else {
		// The call never waited (it got a task or an error at once).
		w.doneHook = nil
		rec.Out = "not raced"
	}
	return true
}

// stepExecuteSlowFetch: time passes while Execute fetches the action from
// storage, across the end of the start-up grace period. The scheduler has
// to judge the request by the time at which it looks at its state (after
// the fetch), not by the time the request arrived. Only used while nothing
// can expire in between: no worker has synchronized yet, no operation
// exists, no timer is pending.
func (w *world) stepExecuteSlowFetch(instancePool []string) bool {
	graceEnd := w.m.startAt.Add(queueTimeout)
	if !w.clk.Now().Before(graceEnd) || len(w.clk.pendingTimers()) > 0 || len(w.m.ops) > 0 {
		return false
	}
	for _, wk := range w.workers {
		if wk.everSync {
			return false
		}
	}
	target := graceEnd.Add(rapid.SampledFrom([]time.Duration{-time.Nanosecond, 0, time.Nanosecond, time.Second}).Draw(w.rt, "pastGraceEnd"))
	if !target.After(w.clk.Now()) {
		return false
	}
	w.record("slowFetch", fmt.Sprintf("the clock reaches %s while the next Execute fetches its action", target.Sub(w.m.startAt)))
	w.slowFetchTarget = target
	w.cas.mu.Lock()
	w.cas.beforeGet = func() { w.clk.jumpTo(target) }
	w.cas.mu.Unlock()
	w.stepExecute(instancePool)
	w.slowFetchTarget = time.Time{}
	w.cas.mu.Lock()
	w.cas.beforeGet = nil
	w.cas.mu.Unlock()
	w.clk.jumpTo(target)
	w.m.label("time_passed_during_action_fetch")
	w.quiesce()
	return true
}

// stepExecuteRacingWakeUp: an Execute hands its task to a worker that is
// blocked waiting for work; the woken call is held at the clock reading
// that precedes its second lock section, an operator kills the task, and
// only then the worker continues. Its answer must reflect the state it
// finds under the lock (the task is gone), not what it saw or assumed
// when it was woken.
func (w *world) stepExecuteRacingWakeUp(instancePool []string) bool {
	blocked := false
	for _, wk := range w.workers {
		if res := wk.inFlight; res != nil {
			w.mu.Lock()
			if !res.returned {
				blocked = true
			}
			w.mu.Unlock()
		}
	}
	if !blocked {
		return false
	}
	rec := w.record("raceWakeUpWithKill", "the worker woken by the next Execute is held before it re-acquires the lock; the task is killed meanwhile")
	before := len(w.streams)
	w.clk.armGate()
	w.stepExecute(instancePool)
	if !w.clk.disarmGate() {
		rec.Out = "nobody was woken"
		return true
	}
	// The operation the new stream is attached to.
	name := ""
	if len(w.streams) > before {
		name = w.m.streamOp[w.streams[len(w.streams)-1].id]
	}
	if name == "" {
		w.clk.releaseGate()
		w.quiesce()
		rec.Out = "woken, but not by a new operation"
		return true
	}
	st := killStatuses[rapid.IntRange(0, len(killStatuses)-1).Draw(w.rt, "killStatus")]
	w.m.pre()
	w.m.onKill(name, st)
	_, err := w.bq.KillOperations(context.Background(), &buildqueuestate.KillOperationsRequest{
		Filter: &buildqueuestate.KillOperationsRequest_Filter{Type: &buildqueuestate.KillOperationsRequest_Filter_OperationName{OperationName: name}},
		Status: st,
	})
	w.quiesce()
	w.clk.releaseGate()
	w.quiesce()
	rec.Out = "raced; kill: " + errString(err)
	w.m.label("kill_between_wake_up_and_lock")
	return true
}

// ---------------------------------------------------------------- lock-held injection

func (w *world) injectUnderLock() {
	if f := w.injection; f != nil {
		w.injection = nil
		w.injectionRan = true
		f()
	}
}

// stepExecuteRacingTimer lets a due timer (idle Synchronize timer of a
// blocked worker, update timer of a waiting stream) deliver its tick while
// an Execute call holds the scheduler lock: the woken goroutine then has to
// re-acquire the lock after the Execute call changed the state (direct
// hand-off to that very worker, deduplication onto that very stream's task).
func (w *world) stepExecuteRacingTimer(instancePool []string) bool {
	ids := w.clk.pendingTimers()
	if len(ids) == 0 {
		return false
	}
	id := ids[rapid.IntRange(0, len(ids)-1).Draw(w.rt, "timer")]
	dl, _ := w.clk.deadlineOf(id)
	rec := w.record("raceTimerWithExecute", fmt.Sprintf("timer#%d due at %s is delivered while the next Execute holds the lock", id, dl.Sub(w.m.startAt)))
	if !w.clk.advanceToDeadlineWithoutFiring(id, w.m.observe) {
		rec.Out = "timer vanished"
		w.quiesce()
		return true
	}
	w.m.observe()
	// The tick may also be handled late: the clock moves on (nothing else
	// becomes due) before the goroutine that waits for the timer gets to
	// see the tick, which still carries the instant the timer fired.
	late := rapid.SampledFrom([]time.Duration{0, 0, time.Nanosecond, time.Second, 20 * time.Second}).Draw(w.rt, "tickHandledLate")
	if late > 0 && w.clk.noTimerDueBy(dl.Add(late), id) {
		w.m.lateTick = true
		w.clk.jumpTo(dl.Add(late))
		rec.Arg += fmt.Sprintf("; the tick is handled %s late", late)
	} else {
		late = 0
	}
	w.injectionRan = false
	w.injection = func() { w.clk.deliverStamped(id) }
	w.stepExecute(instancePool)
	if !w.injectionRan {
		// The Execute call never generated an operation name: deliver
		// the tick the ordinary way.
		w.injection = nil
		w.clk.deliverStamped(id)
		rec.Out = "not raced"
	} else {
		rec.Out = "raced"
		w.m.label("timer_delivered_under_lock")
	}
	w.m.lateTick = false
	if late > 0 {
		w.m.label("tick_handled_late")
	}
	w.quiesce()
	return true
}

// stepCompleteRacingCancel cancels the context of a blocked Synchronize
// call or of a waiting stream while a worker's completion is being
// processed under the scheduler lock.
func (w *world) stepCompleteRacingCancel() bool {
	var cands []*workerSim
	for _, wk := range w.workers {
		if wk.inFlight == nil && wk.believes != nil {
			cands = append(cands, wk)
		}
	}
	if len(cands) == 0 {
		return false
	}
	wk := cands[rapid.IntRange(0, len(cands)-1).Draw(w.rt, "worker")]
	var victims []func()
	var names []string
	for _, o := range w.workers {
		if o.inFlight != nil && o != wk {
			o := o
			victims = append(victims, func() { o.cancel() })
			names = append(names, fmt.Sprintf("Synchronize of worker %d", o.idx))
		}
	}
	for _, s := range w.liveStreams() {
		s := s
		victims = append(victims, func() { s.cancelled = true; s.cancel() })
		names = append(names, fmt.Sprintf("stream %d", s.id))
	}
	if len(victims) == 0 {
		return false
	}
	v := rapid.IntRange(0, len(victims)-1).Draw(w.rt, "victim")
	ck := rapid.SampledFrom(completionKinds).Draw(w.rt, "completion")
	w.record("raceCancelWithCompletion", fmt.Sprintf("%s is cancelled while the completion of worker %d is processed under the lock", names[v], wk.idx))
	w.injectionRan = false
	w.injection = victims[v]
	w.sync(wk, "completed", rapid.Bool().Draw(w.rt, "preferIdle"), ck)
	if !w.injectionRan {
		w.injection = nil
	} else {
		w.m.label("cancel_delivered_under_lock")
	}
	return true
}

// ---------------------------------------------------------------- parked calls

type pendingKill struct {
	name     string
	status   *status_pb.Status
	returned bool
	err      error
	step     int
}

// stepParkSend arms the Send gate of a live stream: its next message
// blocks in the transport until released.
func (w *world) stepParkSend() bool {
	var live []*streamSim
	for _, s := range w.liveStreams() {
		// Only streams that already received their first message: the
		// model learns the operation a stream is attached to from it.
		if _, ok := w.m.streamOp[s.id]; ok {
			live = append(live, s)
		}
	}
	if len(live) == 0 {
		return false
	}
	s := live[rapid.IntRange(0, len(live)-1).Draw(w.rt, "stream")]
	w.record("parkNextSend", fmt.Sprintf("stream=%d", s.id))
	s.stream.gate.arm()
	return true
}

func (w *world) stepReleaseSend() bool {
	var cands []*streamSim
	for _, s := range w.streams {
		if s.stream.gate.waiting() > 0 {
			cands = append(cands, s)
		}
	}
	if len(cands) == 0 {
		return false
	}
	s := cands[rapid.IntRange(0, len(cands)-1).Draw(w.rt, "stream")]
	w.m.pre()
	w.record("releaseSend", fmt.Sprintf("stream=%d", s.id))
	s.stream.gate.release()
	w.quiesce()
	return true
}

// stepWaitParked issues a WaitExecution whose authorization check parks
// between the two lock sections of the call.
func (w *world) stepWaitParked() bool {
	if w.execAuthGate.waiting() > 0 {
		return false
	}
	w.m.pre()
	names := w.m.liveOperationNames()
	if len(names) == 0 {
		return false
	}
	name := rapid.SampledFrom(names).Draw(w.rt, "opName")
	s := w.newStream("wait")
	s.waitName = name
	s.parkedAuth = true
	w.record("waitExecutionParkedAuth", fmt.Sprintf("stream=%d name=%s", s.id, shortName(name)))
	w.execAuthGate.arm()
	go func() {
		err := w.bq.WaitExecution(&remoteexecution.WaitExecutionRequest{Name: name}, s.stream)
		s.mu.Lock()
		s.finished, s.err = true, err
		s.mu.Unlock()
	}()
	w.quiesce()
	w.execAuthGate.disarm()
	return true
}

// stepKillParked issues a KillOperations call whose authorization check
// parks between the lookup and the kill.
func (w *world) stepKillParked() bool {
	if w.killAuthGate.waiting() > 0 {
		return false
	}
	w.m.pre()
	names := w.m.liveOperationNames()
	if len(names) == 0 {
		return false
	}
	name := rapid.SampledFrom(names).Draw(w.rt, "opName")
	st := killStatuses[rapid.IntRange(0, len(killStatuses)-1).Draw(w.rt, "killStatus")]
	pk := &pendingKill{name: name, status: st, step: w.stepNo}
	w.pendingKills = append(w.pendingKills, pk)
	w.record("killParkedAuth", fmt.Sprintf("name=%s status=%s", shortName(name), codes.Code(st.Code)))
	w.killAuthGate.arm()
	go func() {
		_, err := w.bq.KillOperations(context.Background(), &buildqueuestate.KillOperationsRequest{
			Filter: &buildqueuestate.KillOperationsRequest_Filter{Type: &buildqueuestate.KillOperationsRequest_Filter_OperationName{OperationName: name}},
			Status: st,
		})
		w.mu.Lock()
		pk.returned, pk.err = true, err
		w.mu.Unlock()
	}()
	w.quiesce()
	w.killAuthGate.disarm()
	return true
}

func (w *world) stepReleaseAuth() bool {
	which := rapid.IntRange(0, 1).Draw(w.rt, "which")
	gates := []*gate{&w.execAuthGate, &w.killAuthGate}
	if gates[which].waiting() == 0 {
		which = 1 - which
	}
	if gates[which].waiting() == 0 {
		return false
	}
	w.m.pre()
	rec := w.record("releaseAuth", []string{"execute/wait", "kill"}[which])
	if which == 1 {
		for _, pk := range w.pendingKills {
			w.mu.Lock()
			r := pk.returned
			w.mu.Unlock()
			if !r {
				w.m.onKill(pk.name, pk.status)
				w.m.label("kill_after_parked_authorization")
			}
		}
	}
	if which == 0 {
		for _, s := range w.liveStreams() {
			if s.parkedAuth {
				s.parkedAuth = false
				if op := w.m.ops[s.waitName]; op != nil && op.removed {
					w.m.label("wait_authorized_after_operation_removed")
				} else {
					w.m.label("wait_authorized_operation_still_there")
				}
			}
		}
	}
	gates[which].release()
	w.quiesce()
	for _, pk := range w.pendingKills {
		w.mu.Lock()
		if pk.returned && rec.Out == "" && which == 1 {
			rec.Out = errString(pk.err)
		}
		w.mu.Unlock()
	}
	return true
}

// ---------------------------------------------------------------- operator steps

var killStatuses = []*status_pb.Status{
	status.New(codes.Aborted, "killed by operator").Proto(),
	status.New(codes.ResourceExhausted, "operator says no").Proto(),
}

func (w *world) stepKill() bool {
	w.m.pre()
	names := w.m.knownOperationNames()
	if len(names) == 0 {
		return false
	}
	name := rapid.SampledFrom(names).Draw(w.rt, "opName")
	st := killStatuses[rapid.IntRange(0, len(killStatuses)-1).Draw(w.rt, "killStatus")]
	rec := w.record("kill", fmt.Sprintf("name=%s status=%s", shortName(name), codes.Code(st.Code)))
	w.m.onKill(name, st)
	_, err := w.bq.KillOperations(context.Background(), &buildqueuestate.KillOperationsRequest{
		Filter: &buildqueuestate.KillOperationsRequest_Filter{Type: &buildqueuestate.KillOperationsRequest_Filter_OperationName{OperationName: name}},
		Status: st,
	})
	rec.Out = errString(err)
	w.quiesce()
	return true
}

func (w *world) stepKillQueue() bool {
	wk := w.workers[rapid.IntRange(0, len(w.workers)-1).Draw(w.rt, "worker")]
	st := killStatuses[rapid.IntRange(0, len(killStatuses)-1).Draw(w.rt, "killStatus")]
	w.m.pre()
	rec := w.record("killQueue", fmt.Sprintf("queue of worker=%d status=%s", wk.idx, codes.Code(st.Code)))
	_, err := w.bq.KillOperations(context.Background(), &buildqueuestate.KillOperationsRequest{
		Filter: &buildqueuestate.KillOperationsRequest_Filter{Type: &buildqueuestate.KillOperationsRequest_Filter_SizeClassQueueWithoutWorkers{SizeClassQueueWithoutWorkers: w.queueName(wk)}},
		Status: st,
	})
	rec.Out = errString(err)
	if err == nil {
		w.m.onKillQueue(wk, st)
	}
	w.quiesce()
	return true
}

// The last three patterns match no worker; together with {host w0, pool
// p0} they only differ in where the separators of a naive rendering of the
// map would fall, so an injective drain key keeps them apart.
var drainPatterns = []map[string]string{{}, {"pool": "p0"}, {"pool": "p1"}, {"host": "w0"}, {"host": "w1"},
	{"host": "w0", "pool": "p0"}, {"host": "w0 pool:p0"}, {"host": "w0\",\"pool\":\"p0"}, {"host:w0 pool": "p0"}}

func (w *world) stepDrain(add bool) bool {
	wk := w.workers[rapid.IntRange(0, len(w.workers)-1).Draw(w.rt, "worker")]
	pat := drainPatterns[rapid.IntRange(0, len(drainPatterns)-1).Draw(w.rt, "pattern")]
	op := "removeDrain"
	if add {
		op = "addDrain"
	}
	w.m.pre()
	rec := w.record(op, fmt.Sprintf("queue of worker=%d pattern=%v", wk.idx, pat))
	req := &buildqueuestate.AddOrRemoveDrainRequest{SizeClassQueueName: w.queueName(wk), WorkerIdPattern: pat}
	var err error
	if add {
		_, err = w.bq.AddDrain(context.Background(), req)
	} else {
		_, err = w.bq.RemoveDrain(context.Background(), req)
	}
	rec.Out = errString(err)
	if err == nil {
		w.m.onDrain(wk, pat, add)
	}
	w.quiesce()
	return true
}

func (w *world) stepTerminate() bool {
	pat := drainPatterns[rapid.IntRange(1, 5).Draw(w.rt, "pattern")]
	ctx, cancel := context.WithCancel(context.Background())
	tc := &terminateCall{pattern: pat, cancel: cancel, step: w.stepNo}
	w.m.pre()
	w.terms = append(w.terms, tc)
	w.record("terminateWorkers", fmt.Sprintf("pattern=%v", pat))
	w.m.onTerminate(tc)
	go func() {
		_, err := w.bq.TerminateWorkers(ctx, &buildqueuestate.TerminateWorkersRequest{WorkerIdPattern: pat})
		w.mu.Lock()
		tc.returned, tc.err = true, err
		w.mu.Unlock()
	}()
	w.quiesce()
	return true
}

func (w *world) stepCancelTerminate() bool {
	for _, tc := range w.terms {
		w.mu.Lock()
		r := tc.returned
		w.mu.Unlock()
		if !r {
			w.record("cancelTerminate", fmt.Sprintf("pattern=%v", tc.pattern))
			tc.cancel()
			w.quiesce()
			return true
		}
	}
	return false
}

// ---------------------------------------------------------------- time

var advanceChoices = []time.Duration{time.Nanosecond, time.Second, 9 * time.Second, 10 * time.Second, 29 * time.Second, 30 * time.Second, 31 * time.Second, 59 * time.Second, 60 * time.Second, 61 * time.Second, 74 * time.Second, 75 * time.Second, 76 * time.Second, 120 * time.Second, 121 * time.Second, 899 * time.Second, 901 * time.Second}

func (w *world) stepAdvance() {
	d := rapid.SampledFrom(advanceChoices).Draw(w.rt, "advance")
	w.advance(d)
}

func (w *world) advance(d time.Duration) {
	rec := w.record("advance", d.String())
	// Fire timers one by one; run the oracles after each.
	target := w.clk.Now().Add(d)
	fired := 0
	for {
		next, ok := w.clk.nextDeadline()
		if !ok || next.After(target) {
			break
		}
		w.clk.advance(next.Sub(w.clk.Now()))
		fired++
		w.m.observe()
	}
	w.clk.advance(target.Sub(w.clk.Now()))
	rec.Out = fmt.Sprintf("fired %d timers", fired)
	w.quiesce()
}

// stepTick makes a cheap lock-taking call, which runs pending cleanups.
func (w *world) stepTick() {
	w.record("tick", "")
	_, err := w.bq.ListPlatformQueues(context.Background(), &emptypb.Empty{})
	if err != nil {
		w.failf("ListPlatformQueues failed: %v", err)
	}
	w.quiesce()
}

// ---------------------------------------------------------------- helpers

func errString(err error) string {
	if err == nil {
		return "ok"
	}
	return "error: " + status.Convert(err).Code().String()
}

func shortName(n string) string {
	if len(n) > 12 {
		return strings.TrimLeft(n[len(n)-12:], "0")
	}
	return n
}

func sortedKeys[V any](m map[string]V) []string {
	out := make([]string, 0, len(m))
	for k := range m {
		out = append(out, k)
	}
	sort.Strings(out)
	return out
}

package schedsim

import (
	"context"
	"fmt"
	"time"

	remoteexecution "github.com/bazelbuild/remote-apis/build/bazel/remote/execution/v2"
	"github.com/buildbarn/bb-remote-execution/pkg/scheduler/initialsizeclass"
	"github.com/buildbarn/bb-storage/pkg/digest"
)

// sizePlan is what the scripted analyzer will answer for one Execute
// call. It travels in the call's context.
type sizePlan struct {
	ActionID    string
	Choice      int           // selected index = Choice % len(sizeClasses)
	Expected    time.Duration // expected duration reported by Select
	TimeoutSec  int           // timeout reported by Select, in whole seconds
	RetryOnFail bool          // Failed() on the first attempt asks for a retry on the largest size class
	// RetryExpected is the expected duration Failed() reports for that
	// retry (it decides the retried operation's place among operations of
	// equal priority).
	RetryExpected time.Duration
	BgOnSuccess   bool // Succeeded() on a foreground attempt asks for a background learning run
	BgChoice      int
}

type planKey struct{}

// Timeouts encode the attempt kind so that executions can be attributed:
// foreground = whole seconds, retry = +1ms, background = +2ms.
const (
	retryMark = time.Millisecond
	bgMark    = 2 * time.Millisecond
)

type learnerRecord struct {
	ID         int
	ActionID   string
	Kind       string // "first", "retry", "background"
	SizeIndex  int    // index selected for this attempt (-1 for retry = largest)
	Terminal   []string
	Duration   time.Duration // argument of Succeeded
	TimedOut   bool          // argument of Failed
	NextLeaner int           // learner yielded by the terminal call, or -1
	CreatedAt  int           // step number
	TerminalAt int
	Classes    []uint32 // background learner: the size classes that existed when it was created
	checked    bool     // terminal call compared with the history (model.checkLearnerOutcomes)
}

type selectorRecord struct {
	ActionID string
	Calls    []string
	Classes  []uint32
	Learner  int
}

type scriptedAnalyzer struct {
	w         *world
	selectors []*selectorRecord
	learners  []*learnerRecord
	misuse    []string
}

func (a *scriptedAnalyzer) Analyze(ctx context.Context, digestFunction digest.Function, action *remoteexecution.Action) (initialsizeclass.Selector, error) {
	plan, _ := ctx.Value(planKey{}).(*sizePlan)
	if plan == nil {
		plan = &sizePlan{ActionID: "?", TimeoutSec: 600}
	}
	rec := &selectorRecord{ActionID: plan.ActionID, Learner: -1}
	a.selectors = append(a.selectors, rec)
	return &scriptedSelector{a: a, plan: plan, rec: rec}, nil
}

type scriptedSelector struct {
	a    *scriptedAnalyzer
	plan *sizePlan
	rec  *selectorRecord
}

func (s *scriptedSelector) newLearner(kind string, sizeIndex int) *scriptedLearner {
	rec := &learnerRecord{ID: len(s.a.learners), ActionID: s.plan.ActionID, Kind: kind, SizeIndex: sizeIndex, NextLeaner: -1, CreatedAt: s.a.w.stepNo}
	s.a.learners = append(s.a.learners, rec)
	return &scriptedLearner{a: s.a, plan: s.plan, rec: rec}
}

func (s *scriptedSelector) Select(sizeClasses []uint32) (int, time.Duration, time.Duration, initialsizeclass.Learner) {
	s.rec.Calls = append(s.rec.Calls, "Select")
	s.rec.Classes = append([]uint32(nil), sizeClasses...)
	if len(s.rec.Calls) > 1 {
		s.a.misuse = append(s.a.misuse, fmt.Sprintf("selector of %s received %v", s.plan.ActionID, s.rec.Calls))
	}
	idx := s.plan.Choice % len(sizeClasses)
	l := s.newLearner("first", idx)
	s.rec.Learner = l.rec.ID
	return idx, s.plan.Expected, time.Duration(s.plan.TimeoutSec) * time.Second, l
}

func (s *scriptedSelector) Abandoned() {
	s.rec.Calls = append(s.rec.Calls, "Abandoned")
	if len(s.rec.Calls) > 1 {
		s.a.misuse = append(s.a.misuse, fmt.Sprintf("selector of %s received %v", s.plan.ActionID, s.rec.Calls))
	}
}

type scriptedLearner struct {
	a    *scriptedAnalyzer
	plan *sizePlan
	rec  *learnerRecord
}

func (l *scriptedLearner) terminal(name string) {
	// Learner calls are made while the scheduler holds its lock: a
	// lock-held injection point.
	l.a.w.injectUnderLock()
	l.rec.Terminal = append(l.rec.Terminal, name)
	l.rec.TerminalAt = l.a.w.stepNo
	if len(l.rec.Terminal) > 1 {
		l.a.misuse = append(l.a.misuse, fmt.Sprintf("learner %d (%s of %s) received %v", l.rec.ID, l.rec.Kind, l.rec.ActionID, l.rec.Terminal))
	}
}

func (l *scriptedLearner) Succeeded(duration time.Duration, sizeClasses []uint32) (int, time.Duration, time.Duration, initialsizeclass.Learner) {
	l.terminal("Succeeded")
	l.rec.Duration = duration
	if l.rec.Kind != "background" && l.plan.BgOnSuccess {
		idx := l.plan.BgChoice % len(sizeClasses)
		s := &scriptedSelector{a: l.a, plan: l.plan}
		n := s.newLearner("background", idx)
		n.rec.Classes = append([]uint32(nil), sizeClasses...)
		l.rec.NextLeaner = n.rec.ID
		return idx, l.plan.Expected, time.Duration(l.plan.TimeoutSec)*time.Second + bgMark, n
	}
	return 0, 0, 0, nil
}

func (l *scriptedLearner) Failed(timedOut bool) (time.Duration, time.Duration, initialsizeclass.Learner) {
	l.terminal("Failed")
	l.rec.TimedOut = timedOut
	if l.rec.Kind == "first" && l.plan.RetryOnFail {
		s := &scriptedSelector{a: l.a, plan: l.plan}
		n := s.newLearner("retry", -1)
		l.rec.NextLeaner = n.rec.ID
		return l.plan.RetryExpected, time.Duration(l.plan.TimeoutSec)*time.Second + retryMark, n
	}
	return 0, 0, nil
}

func (l *scriptedLearner) Abandoned() {
	l.terminal("Abandoned")
}

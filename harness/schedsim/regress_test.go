package schedsim

import (
	"fmt"
	"os"
	"runtime/debug"
	"testing"
	"testing/synctest"
	"time"
)

// runScripted runs an explicit (not generated) scenario through the same
// world and oracles; used for regression checks of shrunk failures.
func runScripted(t *testing.T, cfg worldConfig, f func(w *world)) (failure string, script []step) {
	synctest.Test(t, func(st *testing.T) {
		var w *world
		defer func() {
			if r := recover(); r != nil {
				if v, ok := r.(violation); ok {
					failure = v.msg
				} else {
					failure = fmt.Sprintf("panic: %v\n%s", r, debug.Stack())
				}
			}
			cleanup(w)
			if w != nil {
				script = w.script
			}
		}()
		w = newWorld(nil, cfg)
		w.m.observe()
		f(w)
	})
	return
}

func (w *world) next() { w.stepNo++ }

func plan(id string, choice int, retry, bg bool) *sizePlan {
	return &sizePlan{ActionID: id, Choice: choice, Expected: time.Second, TimeoutSec: 10, RetryOnFail: retry, BgOnSuccess: bg}
}

func mustPass(t *testing.T, id string, cfg worldConfig, f func(w *world)) {
	failure, script := runScripted(t, cfg, f)
	if failure != "" {
		t.Fatalf("VERIF-VIOLATION property=%s: %s\nscript:\n%s", id, failure, formatScript(script))
	}
	if os.Getenv("VERIF_SHOW_SCRIPT") != "" {
		t.Logf("script:\n%s", formatScript(script))
	}
}

// Shrunk from a generated failure of TestC01/TestC03 (seed 5): the
// completion of a background learning run (same action digest, not
// registered for deduplication) removed the in-flight deduplication entry
// of a live cacheable task, so that the next identical request started a
// second concurrent execution.
func TestC03RegressBackgroundRunKeepsDedupEntry(t *testing.T) {
	cfg := worldConfig{Queues: []queueSpec{{Prefix: "", Platform: 0, Predeclared: true, SizeClasses: []uint32{1, 2, 8}, MaxBG: 1}}, NActions: 2, NWorkers: 1}
	mustPass(t, "C03", cfg, func(w *world) {
		wk := w.workers[0]
		w.next()
		w.sync(wk, "idle", false, "")
		w.next()
		w.execute(w.templates[0], "", 0, "i/p/x", plan("x0", 0, false, true))
		w.next()
		w.sync(wk, "completed", false, "ok") // completes x0; background run of x0 is handed to the worker
		w.next()
		w.execute(w.templates[0], "", 0, "i/p/x", plan("x1", 0, false, false)) // fresh task x1, queued
		w.next()
		w.sync(wk, "completed", true, "ok") // background run completes
		w.next()
		w.execute(w.templates[0], "", 0, "i/p/x", plan("x2", 0, false, false)) // must attach to x1
	})
}

// Found by TestC04FairOrder (seed 7): the cached "priority of the first
// queued operation" of an invocation was not refreshed when a change of a
// child's executing-worker count reordered its queued children, so the
// parent competed with a stale priority and the wrong invocation was served.
func TestC04RegressStaleChildPriority(t *testing.T) {
	cfg := worldConfig{Queues: []queueSpec{{Prefix: "", Platform: 0, Predeclared: true, SizeClasses: []uint32{1}}}, InvDepth: 2, NActions: 6, NWorkers: 2}
	mustPass(t, "C04", cfg, func(w *world) {
		w.m.fair = true
		w0, w1 := w.workers[0], w.workers[1]
		w.next()
		w.sync(w0, "idle", false, "")
		w.next()
		w.execute(w.templates[0], "", 0, "j/p", plan("e0", 0, false, false)) // handed to w0: B and B/p execute on 1 worker
		w.next()
		w.advance(time.Second)
		w.next()
		w.execute(w.templates[1], "", -50, "i/p", plan("e2", 0, false, false)) // queued in A/p
		w.next()
		w.execute(w.templates[3], "", 0, "i/q", plan("e3", 0, false, false)) // queued in A/q
		w.next()
		w.execute(w.templates[4], "", 0, "j/p", plan("e4", 0, false, false)) // queued in B/p
		w.next()
		w.advance(time.Second)
		w.next()
		w.execute(w.templates[0], "", 0, "i/p", plan("e5", 0, false, false)) // attaches to executing e0: A/p and A now execute on 1 worker
		w.next()
		w.sync(w1, "idle", false, "") // A and B tie at (1+1)*2^0; B was served least recently -> e4
	})
}

// Stickiness windows are per level: the window at level 1 starts when the
// worker began serving its current level-1 invocation, not when it began
// serving its level-0 invocation.
func TestC04RegressPerLevelStickinessWindow(t *testing.T) {
	cfg := worldConfig{Queues: []queueSpec{{Prefix: "", Platform: 0, Predeclared: true, SizeClasses: []uint32{1}, Stickiness: []int{100, 30}}}, InvDepth: 2, NActions: 6, NWorkers: 3}
	mustPass(t, "C04", cfg, func(w *world) {
		w.m.fair = true
		w0, w1, w2 := w.workers[0], w.workers[1], w.workers[2]
		w.next()
		w.sync(w0, "idle", false, "")
		w.next()
		w.execute(w.templates[0], "", 0, "i/p", plan("a1", 0, false, false)) // t=0: handed to w0
		w.next()
		w.advance(time.Second)
		w.next()
		w.sync(w1, "idle", false, "")
		w.next()
		w.execute(w.templates[1], "", 0, "i/r", plan("b1", 0, false, false)) // t=1: handed to w1; i/r last served at 1
		w.next()
		w.advance(9 * time.Second)
		w.next()
		w.sync(w0, "completed", true, "ok") // t=10: w0 last served i/p
		w.next()
		w.advance(10 * time.Second)
		w.next()
		w.execute(w.templates[2], "", 0, "i/q", plan("a2", 0, false, false))
		w.next()
		w.sync(w0, "idle", false, "") // t=20: picks a2; level 0 retained, level-1 window restarts at 20
		w.next()
		w.advance(time.Second)
		w.next()
		w.sync(w2, "idle", false, "")
		w.next()
		w.execute(w.templates[3], "", 0, "i/q", plan("c1", 0, false, false)) // t=21: handed to w2; i/q last served at 21
		w.next()
		w.advance(4 * time.Second)
		w.next()
		w.sync(w0, "completed", true, "ok") // t=25: w0 last served i/q
		w.next()
		w.execute(w.templates[4], "", 0, "i/r", plan("a3", 0, false, false))
		w.next()
		w.execute(w.templates[5], "", 0, "i/q", plan("a4", 0, false, false))
		w.next()
		w.advance(15 * time.Second) // t=40: inside 20+30, outside 0+30
		w.next()
		w.sync(w0, "idle", false, "") // i/r and i/q tie (one executing worker each); i/r is least recently served, but sticky i/q is inside its window -> a4
	})
}

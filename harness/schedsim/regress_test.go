package schedsim

import (
	"fmt"
	"runtime/debug"
	"testing"
	"testing/synctest"
	"time"
)

// runScripted runs an explicit (not generated) scenario through the same
// world and oracles; used for regression checks of shrunk failures.
func runScripted(t *testing.T, cfg worldConfig, f func(w *world)) (failure string, script []step) {
	synctest.Test(t, func(st *testing.T) {
		var w *world
		defer func() {
			if r := recover(); r != nil {
				if v, ok := r.(violation); ok {
					failure = v.msg
				} else {
					failure = fmt.Sprintf("panic: %v\n%s", r, debug.Stack())
				}
			}
			cleanup(w)
			if w != nil {
				script = w.script
			}
		}()
		w = newWorld(nil, cfg)
		w.m.observe()
		f(w)
	})
	return
}

func (w *world) next() { w.stepNo++ }

func plan(id string, choice int, retry, bg bool) *sizePlan {
	return &sizePlan{ActionID: id, Choice: choice, Expected: time.Second, TimeoutSec: 10, RetryOnFail: retry, BgOnSuccess: bg}
}

func mustPass(t *testing.T, id string, cfg worldConfig, f func(w *world)) {
	failure, script := runScripted(t, cfg, f)
	if failure != "" {
		t.Fatalf("VERIF-VIOLATION property=%s: %s\nscript:\n%s", id, failure, formatScript(script))
	}
}

// Shrunk from a generated failure of TestC01/TestC03 (seed 5): the
// completion of a background learning run (same action digest, not
// registered for deduplication) removed the in-flight deduplication entry
// of a live cacheable task, so that the next identical request started a
// second concurrent execution.
func TestC03RegressBackgroundRunKeepsDedupEntry(t *testing.T) {
	cfg := worldConfig{Queues: []queueSpec{{Prefix: "", Platform: 0, Predeclared: true, SizeClasses: []uint32{1, 2, 8}, MaxBG: 1}}, NActions: 2, NWorkers: 1}
	mustPass(t, "C03", cfg, func(w *world) {
		wk := w.workers[0]
		w.next()
		w.sync(wk, "idle", false, "")
		w.next()
		w.execute(w.templates[0], "", 0, "i/p/x", plan("x0", 0, false, true))
		w.next()
		w.sync(wk, "completed", false, "ok") // completes x0; background run of x0 is handed to the worker
		w.next()
		w.execute(w.templates[0], "", 0, "i/p/x", plan("x1", 0, false, false)) // fresh task x1, queued
		w.next()
		w.sync(wk, "completed", true, "ok") // background run completes
		w.next()
		w.execute(w.templates[0], "", 0, "i/p/x", plan("x2", 0, false, false)) // must attach to x1
	})
}

package schedsim

import (
	"os"
	"runtime"
	"strings"
	"testing"

	"pgregory.net/rapid"

	"verif/harness/internal/simkit"
)

func TestMain(m *testing.M) {
	// One P: goroutines woken by the same event run in a fixed order,
	// which keeps cases reproducible from their rapid fail file.
	runtime.GOMAXPROCS(1)
	startWatchdog()
	os.Exit(m.Run())
}

var allSyncKinds = []string{"auto", "auto", "auto", "auto", "idle", "completed", "completed", "completed", "executing", "wrongExecuting", "wrongCompleted", "noState"}

func generalOps() []string {
	return []string{
		"execute", "execute", "execute", "execute",
		"sync", "sync", "sync", "sync", "sync", "sync", "syncCompleted", "syncCompleted",
		"wait", "cancelStream", "breakStream", "cancelSync",
		"kill", "killQueue", "addDrain", "removeDrain", "terminate", "cancelTerminate",
		"advance", "advance", "advanceSmall", "tick",
		"parkSend", "releaseSend", "releaseSend", "waitParked", "killParked", "releaseAuth", "releaseAuth",
		"raceTimer", "raceTimer", "raceCancel", "syncDuplicate", "raceWake", "raceWake",
	}
}

func runProperty(t *testing.T, id, sub, rule string, p *profile) {
	rec := simkit.NewRecorder(t, id, sub, rule)
	rapid.Check(t, func(rt *rapid.T) {
		res := runCase(t, rt, p)
		ls := make([]string, 0, len(res.labels))
		for l := range res.labels {
			ls = append(ls, l)
		}
		for _, d := range res.diags {
			rec.Note("diagnostic: " + d)
		}
		rec.Case(struct {
			Config worldConfig `json:"config"`
			Script []step      `json:"script"`
		}{res.cfg, res.script}, p.nontrivial(res.labels), ls...)
	})
}

func TestC01TaskHeldExactlyOnce(t *testing.T) {
	p := &profile{
		name: "C01", ops: generalOps(), minSteps: 5, maxSteps: 60, instances: []string{"", "a", "a/b"}, mixedDepth: true,
		queues: defaultQueues, workers: [2]int{1, 4}, actions: [2]int{2, 4}, invDepth: [2]int{0, 2},
		syncKinds: allSyncKinds, finalDrain: true,
		nontrivial: func(l labels) bool {
			return l["assignment"] >= 2 && (l["final_worker_timeout"] > 0 || l["stream_left"] > 0 || l["kill_live"] > 0 || l["drain_added"] > 0 || l["retry_on_largest"] > 0 || l["dedup_attach"] > 0)
		},
	}
	runProperty(t, "C01", "schedsim-exclusive-ownership",
		"rapid-generated histories of Execute/WaitExecution/Synchronize(idle,executing,completed,wrong digest,no state,prefer idle)/Kill/Drain/Terminate/cancel/clock-advance steps against the real InMemoryBuildQueue under a simulated clock inside testing/synctest (one action per step, quiescence after each); oracle after every step: structural walk (task<->worker links, stage<->queue membership, heap indices), every 'execute' response names the task assigned to that worker, each attempt of a task is only ever handed to one worker, no worker is told to start a completed task. Non-trivial: >=2 assignments and at least one of worker time-out, client leaving, kill, drain, size-class retry, dedup attach; distinct by script hash", p)
}

const schedRuleCommon = "rapid-generated histories of client (Execute, WaitExecution, cancel, broken connection), worker (Synchronize idle/executing/completed/wrong digest/no state/prefer-idle, cancel) and operator (KillOperations, AddDrain/RemoveDrain, TerminateWorkers) steps plus clock advances against the real InMemoryBuildQueue with scripted size-class analyzer, simulated clock (timers fired one at a time) inside testing/synctest; one action per step with quiescence and all oracles after each; "

func TestC02WaitersGetOneFaithfulResult(t *testing.T) {
	ops := []string{
		"execute", "execute", "execute",
		"sync", "sync", "sync", "syncCompleted", "syncCompleted", "syncCompleted",
		"wait", "wait", "wait", "cancelStream", "cancelStream", "breakStream",
		"kill", "kill", "cancelSync",
		"advance", "advance", "advance", "advanceSmall", "tick",
		"parkSend", "parkSend", "releaseSend", "releaseSend", "waitParked", "killParked", "releaseAuth", "releaseAuth",
		"raceTimer", "raceTimer", "raceCancel",
	}
	p := &profile{
		name: "C02", ops: ops, minSteps: 5, maxSteps: 60, instances: []string{""},
		queues: defaultQueues, workers: [2]int{1, 3}, actions: [2]int{1, 3}, invDepth: [2]int{0, 2},
		syncKinds: allSyncKinds, finalDrain: true,
		nontrivial: func(l labels) bool {
			return (l["multi_waiter_op"] > 0 || l["reattach"] > 0 || l["dedup_attach"] > 0) && l["stream_done"] > 0
		},
	}
	runProperty(t, "C02", "schedsim-final-results",
		schedRuleCommon+"oracle per stream: same operation name throughout, nothing after the done message, stages only advance except EXECUTING->QUEUED after a learner-requested retry on the largest size class, a stream that was not cancelled/broken ends with nil and exactly one done message, that message equals the task's final response, which equals the response reported by the worker in that step or a scheduler-made status justified by the history (kill status; UNAVAILABLE only once the worker's timeout or the queue's removal time has passed; INTERNAL exactly when the retry limit is exceeded); WaitExecution on an unknown/removed name gives NOT_FOUND. Non-trivial: an operation with >=2 waiters, a re-attach or a dedup attach, and at least one done message delivered; distinct by script hash", p)
}

func TestC03InFlightDeduplication(t *testing.T) {
	ops := []string{
		"execute", "execute", "execute", "execute", "execute", "execute",
		"sync", "sync", "sync", "syncCompleted", "syncCompleted", "syncCompleted",
		"wait", "cancelStream", "cancelStream", "breakStream", "kill",
		"advance", "advance", "advanceSmall", "tick",
		"waitParked", "waitParked", "releaseAuth", "releaseAuth",
		"parkSend", "parkSend", "releaseSend", "releaseSend",
	}
	p := &profile{
		name: "C03", ops: ops, minSteps: 5, maxSteps: 60, instances: []string{"", "a"},
		queues: defaultQueues, workers: [2]int{1, 3}, actions: [2]int{1, 3}, invDepth: [2]int{0, 2},
		syncKinds: allSyncKinds, finalDrain: true,
		nontrivial: func(l labels) bool { return l["dedup_while_executing"] > 0 || l["dedup_after_retry"] > 0 },
	}
	runProperty(t, "C03", "schedsim-dedup",
		schedRuleCommon+"1-3 action digests (every third template has do_not_cache), a quarter of the requests ask the scripted learner for background learning runs. Oracle: an Execute for a cacheable digest with a live task attaches to exactly that task (its operation belongs to it), otherwise (do_not_cache, or no live task, or after completion) it gets a fresh task of its own; never two live cacheable tasks per digest; all streams of a task receive the identical final response; a stream never sees 'no waiting clients' cancellation while attached. Non-trivial: a duplicate arrived while the first was EXECUTING or after its retry on the largest size class; distinct by script hash", p)
}

func nestedQueues(rt *rapid.T) []queueSpec {
	// Nested instance name prefixes on up to three platforms; predeclared
	// (several size classes) or worker-created.
	prefixes := []string{"", "a", "a/b", "a/b/c", "x"}
	n := rapid.IntRange(2, 4).Draw(rt, "nQueues")
	seen := map[string]bool{}
	var out []queueSpec
	for len(out) < n {
		q := queueSpec{Prefix: rapid.SampledFrom(prefixes).Draw(rt, "prefix"), Platform: rapid.IntRange(0, 2).Draw(rt, "platform")}
		k := q.Prefix + "|" + platformString(q.Platform)
		if seen[k] {
			// Duplicate (prefix, platform): give it the next free prefix instead.
			for _, p := range prefixes {
				if !seen[p+"|"+platformString(q.Platform)] {
					q.Prefix = p
					k = p + "|" + platformString(q.Platform)
					break
				}
			}
			if seen[k] {
				continue
			}
		}
		seen[k] = true
		if rapid.Bool().Draw(rt, "predeclared") {
			q.Predeclared = true
			q.SizeClasses = rapid.SampledFrom([][]uint32{{1}, {1, 4}, {1, 2, 8}}).Draw(rt, "sizeClasses")
		} else {
			q.SizeClasses = []uint32{rapid.SampledFrom([]uint32{0, 0, 3}).Draw(rt, "sizeClass")}
		}
		out = append(out, q)
	}
	return out
}

func drawRouters(rt *rapid.T) []queueSpec {
	prefixes := []string{"", "a", "a/b", "a/b/c", "x"}
	n := rapid.IntRange(0, 4).Draw(rt, "nRouters")
	seen := map[string]bool{}
	var out []queueSpec
	for i := 0; i < n; i++ {
		r := queueSpec{Prefix: rapid.SampledFrom(prefixes).Draw(rt, "routerPrefix"), Platform: rapid.IntRange(0, 2).Draw(rt, "routerPlatform")}
		k := r.Prefix + "|" + platformString(r.Platform)
		if seen[k] {
			continue
		}
		seen[k] = true
		out = append(out, r)
	}
	return out
}

func TestC05RoutingAndDrains(t *testing.T) {
	ops := []string{
		"execute", "execute", "execute", "execute",
		"sync", "sync", "sync", "sync", "syncCompleted", "syncCompleted",
		"addDrain", "addDrain", "removeDrain", "removeDrain", "terminate", "cancelTerminate",
		"cancelSync", "cancelStream", "killQueue", "syncDuplicate", "syncIdle", "raceDrain", "raceDrain", "slowFetch", "slowFetch",
		"advance", "advance", "advanceSmall", "tick",
	}
	p := &profile{
		name: "C05", ops: ops, minSteps: 5, maxSteps: 60, instances: instanceNames, oddClasses: true,
		queues: nestedQueues, routers: drawRouters, workers: [2]int{2, 6}, actions: [2]int{2, 6}, invDepth: [2]int{0, 1},
		syncKinds: allSyncKinds, finalDrain: true,
		nontrivial: func(l labels) bool {
			return l["assignment"] > 0 && (l["drain_added"] > 0 || l["terminate"] > 0 || l["final_queue_removed"] > 0 || l["rejected_Unavailable"]+l["rejected_FailedPrecondition"] > 0)
		},
	}
	runProperty(t, "C05", "schedsim-routing",
		schedRuleCommon+"2-4 platform queues over instance name prefixes {'', a, a/b, a/b/c, x} x 3 platforms, predeclared with 1-3 size classes or worker-created, requests for instance names up to depth 3. Oracle: reference routing = longest prefix among the queues listed by ListPlatformQueues right before the call with identical platform; requests without such a queue are rejected with UNAVAILABLE during the start-up grace period and FAILED_PRECONDITION afterwards, others accepted; every new assignment goes to a worker of exactly that queue and of the size class the scripted selector chose for that attempt (largest for the retry), prefix+suffix reproduces the requested instance name; a worker matching an active drain (ListDrains) or marked terminating never receives a new task; no task stays QUEUED while an undrained worker of its queue is blocked waiting. Non-trivial: an assignment happened and a drain/termination/queue removal/rejection occurred; distinct by script hash", p)
}

func TestC06TimeoutsWakeupsNoLeaks(t *testing.T) {
	ops := []string{
		"execute", "execute", "execute",
		"sync", "sync", "sync", "syncIdle", "syncCompleted",
		"cancelSync", "cancelSync", "cancelStream", "cancelStream", "breakStream", "wait",
		"terminate", "cancelTerminate", "kill",
		"advance", "advance", "advance", "advance", "advanceSmall", "tick",
		"parkSend", "releaseSend", "waitParked", "killParked", "releaseAuth", "releaseAuth",
		"raceTimer", "raceTimer", "raceTimer", "raceCancel",
	}
	p := &profile{
		name: "C06", ops: ops, minSteps: 5, maxSteps: 70, instances: []string{"", "a"}, oddClasses: true, mixedDepth: true,
		queues: defaultQueues, workers: [2]int{1, 4}, actions: [2]int{1, 4}, invDepth: [2]int{0, 3},
		syncKinds: allSyncKinds, finalDrain: true,
		nontrivial: func(l labels) bool {
			return l["final_worker_timeout"] > 0 || l["task_abandoned"] > 0 || l["final_retry_limit"] > 0 || l["final_queue_removed"] > 0
		},
	}
	runProperty(t, "C06", "schedsim-timeouts-leaks",
		schedRuleCommon+"crash-heavy profile (cancelled Synchronize/streams, broken connections, long clock advances around every timeout). Oracle: UNAVAILABLE for an executing task not before its worker's timeout and (every step starts with a lock-taking call) not after it; operations without waiters disappear exactly at the no-waiter timeout (not earlier, not later), never while a stream is attached; INTERNAL exactly when a worker asked retryCount+1 times without reporting the task; worker-created queues disappear only after worker timeout + queue timeout and predeclared ones never; blocked Synchronize returns within the idle interval, TerminateWorkers returns once its tasks left their workers, every call returns after cancellation; final drain: after everyone is gone and all timeouts passed the snapshot holds 0 workers, 0 worker-created queues, 0 cleanups, 0 dedup entries, no timers, only bounded background-learning operations/invocations. Non-trivial: a worker time-out, abandoned task, retry-limit failure or queue removal occurred; distinct by script hash", p)
}

func TestC07LearnerProtocolLinear(t *testing.T) {
	ops := []string{
		"execute", "execute", "execute", "execute",
		"sync", "sync", "sync", "syncCompleted", "syncCompleted", "syncCompleted", "syncCompleted",
		"cancelStream", "kill", "cancelSync", "wait",
		"advance", "advanceSmall", "tick",
	}
	p := &profile{
		name: "C07", ops: ops, minSteps: 5, maxSteps: 60, instances: []string{""}, oddClasses: true,
		queues: func(rt *rapid.T) []queueSpec {
			return []queueSpec{{Prefix: "", Platform: 0, Predeclared: true, SizeClasses: rapid.SampledFrom([][]uint32{{1, 4}, {1, 2, 8}, {2}}).Draw(rt, "sizeClasses"), MaxBG: rapid.IntRange(0, 2).Draw(rt, "maxBG"), BGPriority: 50}}
		},
		workers: [2]int{1, 4}, actions: [2]int{1, 3}, invDepth: [2]int{0, 1},
		syncKinds: allSyncKinds, finalDrain: true,
		nontrivial: func(l labels) bool { return l["retry_on_largest"] > 0 || l["assignment_background"] > 0 },
	}
	runProperty(t, "C07", "schedsim-learner-protocol",
		schedRuleCommon+"predeclared queue with 1-3 size classes and background learning limit 0-2, scripted analyzer whose learners ask for retries and background runs. Oracle: every selector receives exactly one of Select/Abandoned; no learner ever receives two terminal calls and after the final drain every learner except those of still-queued background runs received exactly one; a worker-reported failure on the first attempt with a learner asking for it is re-queued on the largest size class (and only then), otherwise the task completes with the worker's response; background runs carry do_not_cache and the learner's timeout, are bounded by the configured limit at the end; attempt timeouts equal what the analyzer said. Non-trivial: a retry on the largest size class or a background run was assigned; distinct by script hash", p)
}

func fairQueues(rt *rapid.T) []queueSpec {
	stick := rapid.SampledFrom([][]int{nil, nil, {30}, {60, 30}, {30, 30}, {20, 40, 10}}).Draw(rt, "stickiness")
	return []queueSpec{{Prefix: "", Platform: 0, Predeclared: true, SizeClasses: []uint32{1}, Stickiness: stick}}
}

func TestC04FairOrder(t *testing.T) {
	ops := []string{
		"execute", "execute", "execute", "execute", "execute",
		"fairPick", "fairPick", "fairPick", "fairPick",
		"fairComplete", "fairComplete", "fairComplete",
		"fairAdvance", "fairAdvance", "fairAdvance", "cancelStream",
	}
	p := &profile{
		name: "C04", ops: ops, minSteps: 8, maxSteps: 70, instances: []string{"", "", "a"}, mixedDepth: true,
		queues: fairQueues, workers: [2]int{1, 4}, actions: [2]int{3, 6}, invDepth: [2]int{0, 3},
		syncKinds: []string{"auto"}, finalDrain: false, fair: true,
		nontrivial: func(l labels) bool { return l["fair_choice_among_2plus"] > 0 },
	}
	runProperty(t, "C04", "schedsim-fair-order",
		schedRuleCommon+"single predeclared queue, invocation trees of depth 0-3 over 6 invocation paths, priorities from {-200,-100,0,1,100,MaxInt32,MinInt32}, expected durations from the scripted analyzer, stickiness limit lists of length 0-3, 1-4 protocol-following workers that report completion and ask for work in separate calls, clock advances of 1ns-45s between events. Oracle: an independent reference model of the documented policy computes, from the queue contents before each request, the SET of operations that may be handed out (direct operations by priority/longest expected duration/oldest; else child with lowest (executing+1)*2^(priority/100), exact ties to the least recently served, sticky invocation wins a tie only inside its per-level window); the task handed out must be in it; a task handed to a blocked worker must go to one sharing the longest invocation prefix with it; no task stays queued while an undrained worker is blocked. Non-trivial: a decision among >=2 queued tasks; labelled sub-classes: singleton acceptable set, nested depth>=2, stickiness retained at level 1/2; distinct by script hash", p)
}

func TestC04StickinessWindows(t *testing.T) {
	ops := []string{
		"execute", "execute", "execute", "execute",
		"fairPick", "fairPick", "fairPick",
		"fairComplete", "fairComplete",
		"fairAdvance", "fairAdvance", "fairAdvance",
	}
	p := &profile{
		name: "C04s", ops: ops, minSteps: 12, maxSteps: 70, instances: []string{""},
		queues: func(rt *rapid.T) []queueSpec {
			stick := rapid.SampledFrom([][]int{{100, 30}, {30, 100}, {60, 20}, {20, 20, 20}, {40}}).Draw(rt, "stickiness")
			return []queueSpec{{Prefix: "", Platform: 0, Predeclared: true, SizeClasses: []uint32{1}, Stickiness: stick}}
		},
		workers: [2]int{2, 4}, actions: [2]int{6, 9}, invDepth: [2]int{1, 3},
		syncKinds: []string{"auto"}, fair: true, fixedPrio: true,
		invPaths: []string{"i/p/x", "i/q/x", "i/r/x", "i/p/y", "j/p/x"},
		nontrivial: func(l labels) bool {
			for k, v := range l {
				if v > 0 && (len(k) > 18 && k[:18] == "fair_sticky_window") {
					return true
				}
			}
			return false
		},
	}
	runProperty(t, "C04", "schedsim-stickiness-windows",
		schedRuleCommon+"stickiness-focused profile: one queue with stickiness limit lists {[100,30],[30,100],[60,20],[20,20,20],[40]} s, invocation depth 1-3 over paths sharing their first component, equal priorities (so that exact ties are frequent), 2-4 workers, advances of 1ns-45s. Same reference-model oracle as schedsim-fair-order. Non-trivial: a decision in which the sticky invocation tied with a less recently served one, so that the per-level window (inside: sticky wins, expired: least recently served wins) decided; distinct by script hash", p)
}

// TestC06RetryAndRedelivery focuses on the interplay of the per-worker
// redelivery limit with the retry on the largest size class: small and large
// workers, learners that always ask for the retry, workers that frequently
// re-request their task (idle Synchronize while executing) and failing
// completions. Same oracles as the other scheduler checks.
func TestC06RetryAndRedelivery(t *testing.T) {
	ops := []string{
		"execute", "execute",
		"syncIdle", "syncIdle", "syncIdle", "syncAuto", "syncAuto",
		"retryFail", "retryFail", "retryFail", "syncCompleted",
		"advanceSmall", "cancelSync", "wait",
	}
	p := &profile{
		name: "C06r", ops: ops, minSteps: 8, maxSteps: 50, instances: []string{""},
		queues: func(rt *rapid.T) []queueSpec {
			return []queueSpec{{Prefix: "", Platform: 0, Predeclared: true, SizeClasses: rapid.SampledFrom([][]uint32{{1, 4}, {1, 2, 8}}).Draw(rt, "sizeClasses"), MaxBG: 0}}
		},
		workers: [2]int{2, 4}, actions: [2]int{1, 3}, invDepth: [2]int{0, 1},
		syncKinds: allSyncKinds, finalDrain: true, alwaysRetry: true, retryCounts: [2]int{1, 3},
		nontrivial: func(l labels) bool { return l["retry_on_largest"] > 0 && l["reissue"] > 0 },
	}
	runProperty(t, "C06", "schedsim-retry-redelivery",
		schedRuleCommon+"retry-focused profile: one predeclared queue with 2-3 size classes, 2-4 workers spread over them, every request's learner asks for a retry on the largest size class, redelivery limit 1-3, workers often ask again for the task they hold and often report failures. Same oracles (INTERNAL exactly when a worker asked retryCount+1 times for the task it currently holds without reporting it, counted per assignment; re-issues never exceed the limit; retry goes to the largest size class). Non-trivial: a retry on the largest size class and at least one re-issue in the same case; distinct by script hash", p)
}

// TestC14SchedulerLockReleased decides the scheduler part of C14: after
// every step of a generated history (error returns, cancelled and parked
// calls, events delivered while the lock is held included) the scheduler's
// lock must be free at quiescence, and every call that is not blocked by
// design must have returned. The lock probe runs in every schedsim test;
// this one weights the generator towards calls that fail or are cut short.
func TestC14SchedulerLockReleased(t *testing.T) {
	ops := []string{
		"execute", "execute", "execute",
		"sync", "sync", "sync", "sync", "syncCompleted",
		"wait", "wait", "cancelStream", "cancelStream", "breakStream", "breakStream", "cancelSync", "cancelSync",
		"kill", "killQueue", "addDrain", "removeDrain", "terminate", "cancelTerminate", "cancelTerminate",
		"advance", "advanceSmall", "tick",
		"parkSend", "releaseSend", "waitParked", "killParked", "releaseAuth",
		"raceTimer", "raceCancel", "raceCancel",
	}
	p := &profile{
		name: "C14", ops: ops, minSteps: 5, maxSteps: 50, instances: []string{"", "a", "zz"},
		queues: defaultQueues, workers: [2]int{1, 3}, actions: [2]int{1, 3}, invDepth: [2]int{0, 2},
		syncKinds: []string{"auto", "auto", "idle", "completed", "executing", "wrongExecuting", "wrongCompleted", "noState", "noState"}, finalDrain: true,
		nontrivial: func(l labels) bool {
			errs := 0
			for k, n := range l {
				if strings.HasPrefix(k, "sync_error_") || strings.HasPrefix(k, "rejected_") || k == "wait_not_found" {
					errs += n
				}
			}
			return errs > 0 && l["stream_left"] > 0 && l["assignment"] > 0
		},
	}
	runProperty(t, "C14", "schedsim-lock-released",
		schedRuleCommon+"oracle: after every step the scheduler's lock is free at quiescence (TryLock probe through the verif hook; a leaked lock ends the process with VERIF-VIOLATION because the bubble can no longer drain), in addition to all other scheduler oracles. Non-trivial: at least one call returned an error (rejected Execute, NOT_FOUND WaitExecution, failed Synchronize), at least one client left mid-call and at least one task was assigned; distinct by script hash", p)
}

// TestC04NoTaskQueuedWhileWorkerWaits decides the last sentence of C04 in
// worlds with operator interference: "a task arriving while workers are
// blocked waiting for work is handed straight to one of them ... so no task
// stays queued while an undrained worker of its queue is waiting". The
// work conservation oracle (every Synchronize call that is still waiting at
// quiescence, drained/terminating judged by the model) runs in every
// schedsim test; this profile aims at it: many blocked workers, drains added
// and removed under them, timers delivered while an Execute holds the lock,
// cancelled and duplicate Synchronize calls.
func TestC04NoTaskQueuedWhileWorkerWaits(t *testing.T) {
	ops := []string{
		"execute", "execute", "execute", "execute",
		"syncIdle", "syncIdle", "syncIdle", "sync", "sync", "syncCompleted", "syncCompleted",
		"addDrain", "addDrain", "removeDrain", "removeDrain", "removeDrain",
		"cancelSync", "syncDuplicate", "cancelStream", "terminate",
		"raceTimer", "raceTimer", "raceCancel", "raceDrain", "raceDrain",
		"advance", "advanceSmall", "advanceSmall", "tick",
	}
	p := &profile{
		name: "C04", ops: ops, minSteps: 5, maxSteps: 50, instances: []string{"", "a"}, mixedDepth: true,
		queues: defaultQueues, workers: [2]int{2, 5}, actions: [2]int{2, 4}, invDepth: [2]int{0, 2},
		syncKinds: []string{"auto", "auto", "auto", "idle", "completed"}, finalDrain: true,
		nontrivial: func(l labels) bool {
			return l["assignment"] > 0 && (l["drained_worker_waits_while_task_queued"] > 0 || l["drain_removed_existing"] > 0 || l["timer_delivered_under_lock"] > 0)
		},
	}
	runProperty(t, "C04", "schedsim-work-conservation",
		schedRuleCommon+"oracle: at every quiescence no task is QUEUED in a size class queue in which a Synchronize call is still waiting, unless that worker is drained or terminating according to the AddDrain/RemoveDrain/TerminateWorkers calls made (model-owned, compared both ways with ListDrains and the scheduler's flags); a task handed to a blocked worker is handed to the one the locality rule prescribes (fair profiles). Non-trivial: a task was assigned and a drained worker waited while a task was queued, an existing drain was removed, or a timer was delivered while an Execute held the lock; distinct by script hash", p)
}

// Package schedsim drives the real scheduler.InMemoryBuildQueue with
// generated histories of client, worker and operator calls under a
// harness-owned clock and schedule (testing/synctest), and checks the
// properties C01-C07 after every step.
package schedsim

import (
	"context"
	"runtime"
	"sort"
	"strings"
	"sync"
	"testing/synctest"
	"time"

	"github.com/buildbarn/bb-storage/pkg/clock"
)

// simClock is a manually advanced clock. Timers fire one at a time, in
// deadline order (ties: creation order), each followed by quiescence,
// so that which side of a lock release a timer lands on is a generated
// choice rather than an accident of the Go scheduler.
type simClock struct {
	mu     sync.Mutex
	now    time.Time
	nextID int
	timers map[int]*simTimer

	gateArmed bool
	gateHeld  chan struct{}
}

type simTimer struct {
	id       int
	clk      *simClock
	deadline time.Time
	ch       chan time.Time
	cancel   context.CancelFunc // for context timers
}

func newSimClock() *simClock {
	return &simClock{now: time.Unix(1_000_000, 0).UTC(), timers: map[int]*simTimer{}}
}

// Now is what the scheduler calls right before it takes its lock. When
// the re-entry gate is armed, the first call that comes from a worker
// waking up inside getNextTask() is held there - after its wake-up, before
// it has the lock again - until the harness lets it go: whatever the
// harness does meanwhile lands between the two lock sections of that
// Synchronize call.
func (c *simClock) Now() time.Time {
	c.mu.Lock()
	if c.gateArmed && calledFrom("(*worker).getNextTask") {
		c.gateArmed = false
		ch := make(chan struct{})
		c.gateHeld = ch
		c.mu.Unlock()
		<-ch
		c.mu.Lock()
	}
	defer c.mu.Unlock()
	return c.now
}

func calledFrom(function string) bool {
	var pcs [6]uintptr
	n := runtime.Callers(2, pcs[:])
	frames := runtime.CallersFrames(pcs[:n])
	for {
		f, more := frames.Next()
		if strings.HasSuffix(f.Function, function) {
			return true
		}
		if !more {
			return false
		}
	}
}

func (c *simClock) armGate() {
	c.mu.Lock()
	c.gateArmed, c.gateHeld = true, nil
	c.mu.Unlock()
}

// disarmGate reports whether a call is being held.
func (c *simClock) disarmGate() bool {
	c.mu.Lock()
	defer c.mu.Unlock()
	c.gateArmed = false
	return c.gateHeld != nil
}

func (c *simClock) releaseGate() {
	c.mu.Lock()
	ch := c.gateHeld
	c.gateHeld = nil
	c.mu.Unlock()
	if ch != nil {
		close(ch)
	}
}

func (c *simClock) NewTimer(d time.Duration) (clock.Timer, <-chan time.Time) {
	c.mu.Lock()
	defer c.mu.Unlock()
	t := &simTimer{id: c.nextID, clk: c, deadline: c.now.Add(d), ch: make(chan time.Time, 1)}
	c.nextID++
	c.timers[t.id] = t
	return t, t.ch
}

func (t *simTimer) Stop() bool {
	t.clk.mu.Lock()
	defer t.clk.mu.Unlock()
	if _, ok := t.clk.timers[t.id]; ok {
		delete(t.clk.timers, t.id)
		return true
	}
	return false
}

func (c *simClock) NewContextWithTimeout(parent context.Context, d time.Duration) (context.Context, context.CancelFunc) {
	ctx, cancel := context.WithCancel(parent)
	c.mu.Lock()
	t := &simTimer{id: c.nextID, clk: c, deadline: c.now.Add(d), cancel: cancel}
	c.nextID++
	c.timers[t.id] = t
	c.mu.Unlock()
	return ctx, func() { t.Stop(); cancel() }
}

type simTicker struct{}

func (simTicker) Stop() {}

func (c *simClock) NewTicker(d time.Duration) (clock.Ticker, <-chan time.Time) {
	// Not used by the code under test.
	return simTicker{}, make(chan time.Time)
}

// pending returns the number of armed timers.
func (c *simClock) pending() int {
	c.mu.Lock()
	defer c.mu.Unlock()
	return len(c.timers)
}

// nextDeadline returns the earliest armed deadline.
func (c *simClock) nextDeadline() (time.Time, bool) {
	c.mu.Lock()
	defer c.mu.Unlock()
	var best *simTimer
	for _, t := range c.timers {
		if best == nil || t.deadline.Before(best.deadline) || (t.deadline.Equal(best.deadline) && t.id < best.id) {
			best = t
		}
	}
	if best == nil {
		return time.Time{}, false
	}
	return best.deadline, true
}

// advance moves the clock forward by d, firing due timers one at a time
// with quiescence after each. It returns the number of timers fired.
func (c *simClock) advance(d time.Duration) int {
	c.mu.Lock()
	target := c.now.Add(d)
	c.mu.Unlock()
	fired := 0
	for {
		c.mu.Lock()
		ids := make([]int, 0, len(c.timers))
		for id := range c.timers {
			ids = append(ids, id)
		}
		sort.Ints(ids)
		var best *simTimer
		for _, id := range ids {
			t := c.timers[id]
			if t.deadline.After(target) {
				continue
			}
			if best == nil || t.deadline.Before(best.deadline) {
				best = t
			}
		}
		if best == nil {
			c.now = target
			c.mu.Unlock()
			return fired
		}
		delete(c.timers, best.id)
		if best.deadline.After(c.now) {
			c.now = best.deadline
		}
		now := c.now
		c.mu.Unlock()
		if best.cancel != nil {
			best.cancel()
		} else {
			best.ch <- now
		}
		fired++
		synctest.Wait()
	}
}

// pendingTimers returns the ids of the armed channel timers in deadline
// order.
func (c *simClock) pendingTimers() []int {
	c.mu.Lock()
	defer c.mu.Unlock()
	var ts []*simTimer
	for _, t := range c.timers {
		if t.cancel == nil {
			ts = append(ts, t)
		}
	}
	sort.Slice(ts, func(i, j int) bool {
		if !ts[i].deadline.Equal(ts[j].deadline) {
			return ts[i].deadline.Before(ts[j].deadline)
		}
		return ts[i].id < ts[j].id
	})
	ids := make([]int, 0, len(ts))
	for _, t := range ts {
		ids = append(ids, t.id)
	}
	return ids
}

func (c *simClock) deadlineOf(id int) (time.Time, bool) {
	c.mu.Lock()
	defer c.mu.Unlock()
	t, ok := c.timers[id]
	if !ok {
		return time.Time{}, false
	}
	return t.deadline, true
}

// deliver fires one armed timer without waiting for quiescence; the
// clock must already have reached its deadline. It is used to deliver a
// tick while another goroutine holds the scheduler lock.
func (c *simClock) deliver(id int) bool {
	c.mu.Lock()
	t, ok := c.timers[id]
	if !ok || t.deadline.After(c.now) {
		c.mu.Unlock()
		return false
	}
	delete(c.timers, id)
	now := c.now
	c.mu.Unlock()
	t.ch <- now
	return true
}

// advanceJustBefore moves the clock to the deadline of the given timer,
// firing every timer that is due earlier, but leaves that timer armed
// (due, not yet delivered).
func (c *simClock) advanceToDeadlineWithoutFiring(id int, afterEach func()) bool {
	for {
		dl, ok := c.deadlineOf(id)
		if !ok {
			return false
		}
		// Fire strictly earlier timers one at a time.
		c.mu.Lock()
		var best *simTimer
		for _, t := range c.timers {
			if t.id != id && t.deadline.Before(dl) && (best == nil || t.deadline.Before(best.deadline) || (t.deadline.Equal(best.deadline) && t.id < best.id)) {
				best = t
			}
		}
		if best == nil {
			if dl.After(c.now) {
				c.now = dl
			}
			c.mu.Unlock()
			return true
		}
		delete(c.timers, best.id)
		if best.deadline.After(c.now) {
			c.now = best.deadline
		}
		now := c.now
		c.mu.Unlock()
		if best.cancel != nil {
			best.cancel()
		} else {
			best.ch <- now
		}
		synctest.Wait()
		if afterEach != nil {
			afterEach()
		}
	}
}

// jumpTo moves the clock forward without delivering anything. Only used
// when no timer is pending (time passing inside a call of the scheduler,
// e.g. while it fetches an action from storage).
func (c *simClock) jumpTo(t time.Time) {
	c.mu.Lock()
	if t.After(c.now) {
		c.now = t
	}
	c.mu.Unlock()
}

// deliverStamped delivers the tick of a timer that became due earlier:
// the tick carries the instant the timer fired (its deadline), although
// the clock has moved on since - what a goroutine sees when it gets to
// handle an expired timer late.
func (c *simClock) deliverStamped(id int) bool {
	c.mu.Lock()
	t, ok := c.timers[id]
	if !ok || t.deadline.After(c.now) {
		c.mu.Unlock()
		return false
	}
	delete(c.timers, id)
	stamp := t.deadline
	c.mu.Unlock()
	t.ch <- stamp
	return true
}

// noTimerDueBy reports whether no pending timer other than the given one
// has a deadline at or before t.
func (c *simClock) noTimerDueBy(t time.Time, except int) bool {
	c.mu.Lock()
	defer c.mu.Unlock()
	for id, x := range c.timers {
		if id != except && !x.deadline.After(t) {
			return false
		}
	}
	return true
}

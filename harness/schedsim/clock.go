// Package schedsim drives the real scheduler.InMemoryBuildQueue with
// generated histories of client, worker and operator calls under a
// harness-owned clock and schedule (testing/synctest), and checks the
// properties C01-C07 after every step.
package schedsim

import (
	"context"
	"sort"
	"sync"
	"testing/synctest"
	"time"

	"github.com/buildbarn/bb-storage/pkg/clock"
)

// simClock is a manually advanced clock. Timers fire one at a time, in
// deadline order (ties: creation order), each followed by quiescence,
// so that which side of a lock release a timer lands on is a generated
// choice rather than an accident of the Go scheduler.
type simClock struct {
	mu     sync.Mutex
	now    time.Time
	nextID int
	timers map[int]*simTimer
}

type simTimer struct {
	id       int
	clk      *simClock
	deadline time.Time
	ch       chan time.Time
	cancel   context.CancelFunc // for context timers
}

func newSimClock() *simClock {
	return &simClock{now: time.Unix(1_000_000, 0).UTC(), timers: map[int]*simTimer{}}
}

func (c *simClock) Now() time.Time {
	c.mu.Lock()
	defer c.mu.Unlock()
	return c.now
}

func (c *simClock) NewTimer(d time.Duration) (clock.Timer, <-chan time.Time) {
	c.mu.Lock()
	defer c.mu.Unlock()
	t := &simTimer{id: c.nextID, clk: c, deadline: c.now.Add(d), ch: make(chan time.Time, 1)}
	c.nextID++
	c.timers[t.id] = t
	return t, t.ch
}

func (t *simTimer) Stop() bool {
	t.clk.mu.Lock()
	defer t.clk.mu.Unlock()
	if _, ok := t.clk.timers[t.id]; ok {
		delete(t.clk.timers, t.id)
		return true
	}
	return false
}

func (c *simClock) NewContextWithTimeout(parent context.Context, d time.Duration) (context.Context, context.CancelFunc) {
	ctx, cancel := context.WithCancel(parent)
	c.mu.Lock()
	t := &simTimer{id: c.nextID, clk: c, deadline: c.now.Add(d), cancel: cancel}
	c.nextID++
	c.timers[t.id] = t
	c.mu.Unlock()
	return ctx, func() { t.Stop(); cancel() }
}

type simTicker struct{}

func (simTicker) Stop() {}

func (c *simClock) NewTicker(d time.Duration) (clock.Ticker, <-chan time.Time) {
	// Not used by the code under test.
	return simTicker{}, make(chan time.Time)
}

// pending returns the number of armed timers.
func (c *simClock) pending() int {
	c.mu.Lock()
	defer c.mu.Unlock()
	return len(c.timers)
}

// nextDeadline returns the earliest armed deadline.
func (c *simClock) nextDeadline() (time.Time, bool) {
	c.mu.Lock()
	defer c.mu.Unlock()
	var best *simTimer
	for _, t := range c.timers {
		if best == nil || t.deadline.Before(best.deadline) || (t.deadline.Equal(best.deadline) && t.id < best.id) {
			best = t
		}
	}
	if best == nil {
		return time.Time{}, false
	}
	return best.deadline, true
}

// advance moves the clock forward by d, firing due timers one at a time
// with quiescence after each. It returns the number of timers fired.
func (c *simClock) advance(d time.Duration) int {
	c.mu.Lock()
	target := c.now.Add(d)
	c.mu.Unlock()
	fired := 0
	for {
		c.mu.Lock()
		ids := make([]int, 0, len(c.timers))
		for id := range c.timers {
			ids = append(ids, id)
		}
		sort.Ints(ids)
		var best *simTimer
		for _, id := range ids {
			t := c.timers[id]
			if t.deadline.After(target) {
				continue
			}
			if best == nil || t.deadline.Before(best.deadline) {
				best = t
			}
		}
		if best == nil {
			c.now = target
			c.mu.Unlock()
			return fired
		}
		delete(c.timers, best.id)
		if best.deadline.After(c.now) {
			c.now = best.deadline
		}
		now := c.now
		c.mu.Unlock()
		if best.cancel != nil {
			best.cancel()
		} else {
			best.ch <- now
		}
		fired++
		synctest.Wait()
	}
}

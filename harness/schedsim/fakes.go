package schedsim

import (
	"context"
	"fmt"
	"sync"

	remoteexecution "github.com/bazelbuild/remote-apis/build/bazel/remote/execution/v2"
	"github.com/buildbarn/bb-storage/pkg/blobstore/buffer"
	"github.com/buildbarn/bb-storage/pkg/blobstore/slicing"
	"github.com/buildbarn/bb-storage/pkg/digest"
	"github.com/google/uuid"
	"google.golang.org/grpc/codes"
	"google.golang.org/grpc/metadata"
	"google.golang.org/grpc/status"
	"google.golang.org/protobuf/proto"

	"cloud.google.com/go/longrunning/autogen/longrunningpb"
)

// fakeCAS serves Action messages by hash.
type fakeCAS struct {
	mu      sync.Mutex
	actions map[string]*remoteexecution.Action
	// beforeGet, when set, runs once at the start of the next Get: what
	// happens while the scheduler fetches the action from storage.
	beforeGet func()
}

func (c *fakeCAS) GetCapabilities(ctx context.Context, instanceName digest.InstanceName) (*remoteexecution.ServerCapabilities, error) {
	return nil, status.Error(codes.Unimplemented, "not used")
}

func (c *fakeCAS) Get(ctx context.Context, d digest.Digest) buffer.Buffer {
	c.mu.Lock()
	f := c.beforeGet
	c.beforeGet = nil
	c.mu.Unlock()
	if f != nil {
		f()
	}
	c.mu.Lock()
	defer c.mu.Unlock()
	a, ok := c.actions[d.GetHashString()]
	if !ok {
		return buffer.NewBufferFromError(status.Error(codes.NotFound, "action not found"))
	}
	return buffer.NewProtoBufferFromProto(proto.Clone(a), buffer.UserProvided)
}

func (c *fakeCAS) GetFromComposite(ctx context.Context, parentDigest, childDigest digest.Digest, slicer slicing.BlobSlicer) buffer.Buffer {
	return buffer.NewBufferFromError(status.Error(codes.Unimplemented, "not used"))
}

func (c *fakeCAS) Put(ctx context.Context, d digest.Digest, b buffer.Buffer) error {
	b.Discard()
	return status.Error(codes.Unimplemented, "not used")
}

func (c *fakeCAS) FindMissing(ctx context.Context, digests digest.Set) (digest.Set, error) {
	return digest.EmptySet, status.Error(codes.Unimplemented, "not used")
}

// gate is a parking point: when armed, the next caller blocks until the
// harness releases it (or its context is cancelled).
type gate struct {
	mu     sync.Mutex
	armed  bool
	parked []chan struct{}
}

func (g *gate) pass(ctx context.Context) error {
	g.mu.Lock()
	if !g.armed {
		g.mu.Unlock()
		return nil
	}
	g.armed = false
	ch := make(chan struct{})
	g.parked = append(g.parked, ch)
	g.mu.Unlock()
	select {
	case <-ch:
		return nil
	case <-ctx.Done():
		g.mu.Lock()
		for i, c := range g.parked {
			if c == ch {
				g.parked = append(g.parked[:i], g.parked[i+1:]...)
			}
		}
		g.mu.Unlock()
		return status.Error(codes.Canceled, "context cancelled while parked")
	}
}

func (g *gate) arm() {
	g.mu.Lock()
	g.armed = true
	g.mu.Unlock()
}

func (g *gate) disarm() {
	g.mu.Lock()
	g.armed = false
	g.mu.Unlock()
}

func (g *gate) waiting() int {
	g.mu.Lock()
	defer g.mu.Unlock()
	return len(g.parked)
}

func (g *gate) release() bool {
	g.mu.Lock()
	defer g.mu.Unlock()
	if len(g.parked) == 0 {
		return false
	}
	close(g.parked[0])
	g.parked = g.parked[1:]
	return true
}

// gatedAuthorizer permits everything, possibly after parking.
type gatedAuthorizer struct{ g *gate }

func (a gatedAuthorizer) Authorize(ctx context.Context, instanceNames []digest.InstanceName) []error {
	errs := make([]error, len(instanceNames))
	if err := a.g.pass(ctx); err != nil {
		for i := range errs {
			errs[i] = err
		}
	}
	return errs
}

// allowAuthorizer permits everything.
type allowAuthorizer struct{}

func (allowAuthorizer) Authorize(ctx context.Context, instanceNames []digest.InstanceName) []error {
	return make([]error, len(instanceNames))
}

// counterUUIDs yields deterministic, ordered UUIDs.
type counterUUIDs struct {
	mu sync.Mutex
	n  uint32
	w  *world
}

func (g *counterUUIDs) next() (uuid.UUID, error) {
	// Operation names are generated while the scheduler holds its lock:
	// a lock-held injection point.
	if g.w != nil {
		g.w.injectUnderLock()
	}
	g.mu.Lock()
	defer g.mu.Unlock()
	g.n++
	return uuid.Parse(fmt.Sprintf("00000000-0000-4000-8000-%012d", g.n))
}

// stream is a fake Execution_ExecuteServer / Execution_WaitExecutionServer.
type stream struct {
	id     int
	ctx    context.Context
	cancel context.CancelFunc

	mu       sync.Mutex
	msgs     []*longrunningpb.Operation
	msgSteps []int
	sendErr  error // when set, Send fails (client connection broken)
	w        *world
	gate     gate

	finished bool
	err      error
}

func (s *stream) Send(op *longrunningpb.Operation) error {
	// A parked Send models a slow client connection: the scheduler has
	// released its lock and is blocked in the transport.
	if err := s.gate.pass(s.ctx); err != nil {
		return err
	}
	s.mu.Lock()
	defer s.mu.Unlock()
	if s.sendErr != nil {
		return s.sendErr
	}
	s.msgs = append(s.msgs, proto.Clone(op).(*longrunningpb.Operation))
	s.msgSteps = append(s.msgSteps, s.w.stepNo)
	return nil
}

func (s *stream) Context() context.Context     { return s.ctx }
func (s *stream) SetHeader(metadata.MD) error  { return nil }
func (s *stream) SendHeader(metadata.MD) error { return nil }
func (s *stream) SetTrailer(metadata.MD)       {}
func (s *stream) SendMsg(m any) error          { return nil }
func (s *stream) RecvMsg(m any) error          { return nil }

package schedsim

import (
	"context"
	"fmt"
	"sync"

	remoteexecution "github.com/bazelbuild/remote-apis/build/bazel/remote/execution/v2"
	"github.com/buildbarn/bb-storage/pkg/blobstore/buffer"
	"github.com/buildbarn/bb-storage/pkg/blobstore/slicing"
	"github.com/buildbarn/bb-storage/pkg/digest"
	"github.com/google/uuid"
	"google.golang.org/grpc/codes"
	"google.golang.org/grpc/metadata"
	"google.golang.org/grpc/status"
	"google.golang.org/protobuf/proto"

	"cloud.google.com/go/longrunning/autogen/longrunningpb"
)

// fakeCAS serves Action messages by hash.
type fakeCAS struct {
	mu      sync.Mutex
	actions map[string]*remoteexecution.Action
}

func (c *fakeCAS) GetCapabilities(ctx context.Context, instanceName digest.InstanceName) (*remoteexecution.ServerCapabilities, error) {
	return nil, status.Error(codes.Unimplemented, "not used")
}

func (c *fakeCAS) Get(ctx context.Context, d digest.Digest) buffer.Buffer {
	c.mu.Lock()
	defer c.mu.Unlock()
	a, ok := c.actions[d.GetHashString()]
	if !ok {
		return buffer.NewBufferFromError(status.Error(codes.NotFound, "action not found"))
	}
	return buffer.NewProtoBufferFromProto(proto.Clone(a), buffer.UserProvided)
}

func (c *fakeCAS) GetFromComposite(ctx context.Context, parentDigest, childDigest digest.Digest, slicer slicing.BlobSlicer) buffer.Buffer {
	return buffer.NewBufferFromError(status.Error(codes.Unimplemented, "not used"))
}

func (c *fakeCAS) Put(ctx context.Context, d digest.Digest, b buffer.Buffer) error {
	b.Discard()
	return status.Error(codes.Unimplemented, "not used")
}

func (c *fakeCAS) FindMissing(ctx context.Context, digests digest.Set) (digest.Set, error) {
	return digest.EmptySet, status.Error(codes.Unimplemented, "not used")
}

// allowAuthorizer permits everything.
type allowAuthorizer struct{}

func (allowAuthorizer) Authorize(ctx context.Context, instanceNames []digest.InstanceName) []error {
	return make([]error, len(instanceNames))
}

// counterUUIDs yields deterministic, ordered UUIDs.
type counterUUIDs struct {
	mu sync.Mutex
	n  uint32
}

func (g *counterUUIDs) next() (uuid.UUID, error) {
	g.mu.Lock()
	defer g.mu.Unlock()
	g.n++
	return uuid.Parse(fmt.Sprintf("00000000-0000-4000-8000-%012d", g.n))
}

// stream is a fake Execution_ExecuteServer / Execution_WaitExecutionServer.
type stream struct {
	id     int
	ctx    context.Context
	cancel context.CancelFunc

	mu       sync.Mutex
	msgs     []*longrunningpb.Operation
	msgSteps []int
	sendErr  error // when set, Send fails (client connection broken)
	w        *world

	finished bool
	err      error
}

func (s *stream) Send(op *longrunningpb.Operation) error {
	s.mu.Lock()
	defer s.mu.Unlock()
	if s.sendErr != nil {
		return s.sendErr
	}
	s.msgs = append(s.msgs, proto.Clone(op).(*longrunningpb.Operation))
	s.msgSteps = append(s.msgSteps, s.w.stepNo)
	return nil
}

func (s *stream) Context() context.Context     { return s.ctx }
func (s *stream) SetHeader(metadata.MD) error  { return nil }
func (s *stream) SendHeader(metadata.MD) error { return nil }
func (s *stream) SetTrailer(metadata.MD)       {}
func (s *stream) SendMsg(m any) error          { return nil }
func (s *stream) RecvMsg(m any) error          { return nil }

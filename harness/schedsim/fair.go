package schedsim

import (
	"fmt"
	"math"
	"sort"
	"strings"
	"time"

	remoteexecution "github.com/bazelbuild/remote-apis/build/bazel/remote/execution/v2"
	"github.com/buildbarn/bb-remote-execution/pkg/scheduler"
)

// Reference model of the documented fair scheduling policy (C04). It is
// written from the property text, the comments of isPreferred() / Less()
// and the documentation of worker_invocation_stickiness_limits; it shares
// no code with the scheduler.

type fOp struct {
	name     string
	actionID string
	prio     int32
	expected time.Duration
	queuedAt time.Time
}

type fNode struct {
	path        []string
	ops         []*fOp
	children    map[string]*fNode
	executing   map[string]bool
	lastStarted int64
}

func pathKey(p []string) string { return strings.Join(p, "\x00") }

// buildFairTree reconstructs the queue of one size class queue from a
// snapshot: which operations are queued where, and which workers execute
// operations of which invocations.
func buildFairTree(snap *scheduler.VerifSnapshot, queue string) *fNode {
	nodes := map[string]*fNode{}
	get := func(p []string) *fNode {
		k := pathKey(p)
		n, ok := nodes[k]
		if !ok {
			n = &fNode{path: append([]string(nil), p...), children: map[string]*fNode{}, executing: map[string]bool{}}
			nodes[k] = n
		}
		return n
	}
	var link func(p []string) *fNode
	link = func(p []string) *fNode {
		n := get(p)
		if len(p) > 0 {
			parent := link(p[:len(p)-1])
			parent.children[p[len(p)-1]] = n
		}
		return n
	}
	link(nil)
	for _, inv := range snap.Invocations {
		if inv.QueueName == queue {
			link(inv.IDs).lastStarted = inv.LastOperationStarted
		}
	}
	for _, vt := range snap.Tasks {
		if vt.QueueName != queue {
			continue
		}
		switch vt.Stage {
		case remoteexecution.ExecutionStage_QUEUED:
			for _, o := range vt.Operations {
				n := link(o.InvocationIDs)
				n.ops = append(n.ops, &fOp{name: o.Name, actionID: actionIDOf(vt.DesiredState), prio: o.Priority, expected: vt.ExpectedDuration, queuedAt: vt.DesiredState.QueuedTimestamp.AsTime()})
			}
		case remoteexecution.ExecutionStage_EXECUTING:
			for _, o := range vt.Operations {
				for l := 0; l <= len(o.InvocationIDs); l++ {
					link(o.InvocationIDs[:l]).executing[vt.WorkerKey] = true
				}
			}
		}
	}
	return nodes[""]
}

func (n *fNode) isQueued() bool {
	if len(n.ops) > 0 {
		return true
	}
	for _, c := range n.children {
		if c.isQueued() {
			return true
		}
	}
	return false
}

func opBefore(a, b *fOp) int {
	// priority ascending, expected duration descending, oldest first.
	switch {
	case a.prio != b.prio:
		if a.prio < b.prio {
			return -1
		}
		return 1
	case a.expected != b.expected:
		if a.expected > b.expected {
			return -1
		}
		return 1
	case !a.queuedAt.Equal(b.queuedAt):
		if a.queuedAt.Before(b.queuedAt) {
			return -1
		}
		return 1
	}
	return 0
}

// bestOps returns the directly queued operations that share the best key.
func (n *fNode) bestOps() []*fOp {
	var best []*fOp
	for _, o := range n.ops {
		if len(best) == 0 {
			best = []*fOp{o}
			continue
		}
		switch opBefore(o, best[0]) {
		case -1:
			best = []*fOp{o}
		case 0:
			best = append(best, o)
		}
	}
	return best
}

type stickiness struct {
	lastInv []string    // invocation the worker last served
	starts  []time.Time // per level: since when
	limits  []time.Duration
	now     time.Time
	events  []string
}

type fairDecision struct {
	acceptable map[string]bool // operation names
	// For each acceptable operation: number of leading levels at which the
	// sticky invocation was followed.
	retained  map[string]int
	singleton bool
	notes     []string
}

// score compares two children the documented way: lowest
// (executing workers + 1) * 2^(priority/100) wins. Returns -1, 0 (tie
// within tolerance), +1.
func compareScore(ea, eb int, pa, pb int32) int {
	sa, sb := float64(ea+1), float64(eb+1)
	if pa < pb {
		sb *= math.Pow(2, (float64(pb)-float64(pa))/100)
	} else if pa > pb {
		sa *= math.Pow(2, (float64(pa)-float64(pb))/100)
	}
	if sa == sb {
		return 0
	}
	if math.IsInf(sa, 1) && math.IsInf(sb, 1) {
		return 0
	}
	if !math.IsInf(sa, 0) && !math.IsInf(sb, 0) && math.Abs(sa-sb) <= 1e-9*math.Max(sa, sb) {
		return 0
	}
	if sa < sb {
		return -1
	}
	return 1
}

// nextPriorities returns the set of priorities the next operation taken
// from this invocation can have under the documented policy (more than
// one only when the policy leaves the choice open).
func (n *fNode) nextPriorities() map[int32]bool {
	out := map[int32]bool{}
	if len(n.ops) > 0 {
		for _, o := range n.bestOps() {
			out[o.prio] = true
		}
		return out
	}
	for _, c := range n.minimalChildren(nil, 0, false) {
		for p := range c.nextPriorities() {
			out[p] = true
		}
	}
	return out
}

func (n *fNode) queuedChildren() []*fNode {
	keys := make([]string, 0, len(n.children))
	for k := range n.children {
		keys = append(keys, k)
	}
	sort.Strings(keys)
	var out []*fNode
	for _, k := range keys {
		if c := n.children[k]; c.isQueued() {
			out = append(out, c)
		}
	}
	return out
}

// minimalChildren returns the children that the policy allows to be
// served next. st/level/stickyActive describe the stickiness of the
// asking worker (nil st: no stickiness).
func (n *fNode) minimalChildren(st *stickiness, level int, stickyActive bool) []*fNode {
	cands := n.queuedChildren()
	if len(cands) <= 1 {
		return cands
	}
	// A child can be minimal if for some choice of its open priority no
	// other child beats it for all of that child's choices.
	canBeMin := func(c *fNode) (possible, certain bool) {
		possible = false
		certain = true
		for pc := range c.nextPriorities() {
			okAll := true
			strictAll := true
			for _, d := range cands {
				if d == c {
					continue
				}
				beatenByAll := true
				for pd := range d.nextPriorities() {
					cmp := compareScore(len(c.executing), len(d.executing), pc, pd)
					if cmp <= 0 {
						beatenByAll = false
					}
					if cmp >= 0 {
						strictAll = false
					}
				}
				if beatenByAll {
					okAll = false
				}
			}
			if okAll {
				possible = true
			}
			if !strictAll {
				certain = false
			}
		}
		return
	}
	var minimal []*fNode
	for _, c := range cands {
		if p, _ := canBeMin(c); p {
			minimal = append(minimal, c)
		}
	}
	if len(minimal) <= 1 {
		return minimal
	}
	// Exact ties between children of equal priority and equal executing
	// worker count are decided by stickiness and then by "least recently
	// served"; when priorities differ the scores can only be tied within
	// floating point tolerance, and every tied child is accepted.
	exact := true
	for _, c := range minimal {
		for _, d := range minimal {
			pc, pd := c.nextPriorities(), d.nextPriorities()
			if len(pc) != 1 || len(pd) != 1 {
				exact = false
				continue
			}
			for a := range pc {
				for b := range pd {
					if a != b || len(c.executing) != len(d.executing) {
						exact = false
					}
				}
			}
		}
	}
	if !exact {
		return minimal
	}
	// Inside its window the invocation the worker last served wins a tie.
	if st != nil && stickyActive && level < len(st.lastInv) && level < len(st.limits) {
		for _, c := range minimal {
			if c.path[len(c.path)-1] == st.lastInv[level] {
				oldest := true
				for _, d := range minimal {
					if d.lastStarted < c.lastStarted {
						oldest = false
					}
				}
				if st.starts[level].Add(st.limits[level]).After(st.now) {
					if !oldest {
						st.events = append(st.events, fmt.Sprintf("fair_sticky_window_overrode_lru_level%d", level))
					}
					return []*fNode{c}
				}
				if !oldest {
					st.events = append(st.events, fmt.Sprintf("fair_sticky_window_expired_lru_won_level%d", level))
				}
			}
		}
	}
	oldest := minimal[0].lastStarted
	for _, c := range minimal {
		if c.lastStarted < oldest {
			oldest = c.lastStarted
		}
	}
	var out []*fNode
	for _, c := range minimal {
		if c.lastStarted == oldest {
			out = append(out, c)
		}
	}
	return out
}

// decide computes which operations may be handed to a worker asking for
// work now.
func (n *fNode) decide(st *stickiness) *fairDecision {
	d := &fairDecision{acceptable: map[string]bool{}, retained: map[string]int{}}
	var walk func(n *fNode, level int, stickyActive bool, retained int)
	walk = func(n *fNode, level int, stickyActive bool, retained int) {
		if len(n.ops) > 0 {
			for _, o := range n.bestOps() {
				d.acceptable[o.name] = true
				d.retained[o.name] = retained
			}
			return
		}
		for _, c := range n.minimalChildren(st, level, stickyActive) {
			isSticky := st != nil && stickyActive && level < len(st.lastInv) && level < len(st.limits) && c.path[len(c.path)-1] == st.lastInv[level]
			r := retained
			if isSticky {
				r++
			}
			walk(c, level+1, isSticky, r)
		}
	}
	walk(n, 0, st != nil && len(st.lastInv) > 0, 0)
	// Several operations of one task count once.
	d.singleton = len(d.acceptable) == 1
	return d
}

func describeTree(n *fNode, indent string) string {
	var b strings.Builder
	fmt.Fprintf(&b, "%s%v executing=%d lastStarted=%d\n", indent, shortPath(n.path), len(n.executing), n.lastStarted)
	for _, o := range n.ops {
		fmt.Fprintf(&b, "%s  op %s action=%s prio=%d expected=%s queuedAt=%d\n", indent, shortName(o.name), o.actionID, o.prio, o.expected, o.queuedAt.UnixNano())
	}
	keys := make([]string, 0, len(n.children))
	for k := range n.children {
		keys = append(keys, k)
	}
	sort.Strings(keys)
	for _, k := range keys {
		b.WriteString(describeTree(n.children[k], indent+"  "))
	}
	return b.String()
}

func shortPath(p []string) []string {
	out := make([]string, 0, len(p))
	for _, s := range p {
		if i := strings.Index(s, `"value":"`); i >= 0 {
			s = s[i+9:]
			s = strings.TrimSuffix(strings.TrimSuffix(s, `}`), `"`)
		} else if strings.Contains(s, "BackgroundLearning") {
			s = "<bg>"
		} else if strings.Contains(s, "StringValue") {
			s = `""`
		}
		out = append(out, s)
	}
	return out
}

func commonPrefixLen(a, b []string) int {
	n := 0
	for n < len(a) && n < len(b) && a[n] == b[n] {
		n++
	}
	return n
}

// ---------------------------------------------------------------- model integration

// fairWorker is the model's view of what a worker last served.
type fairWorker struct {
	lastInv []string
	starts  []time.Time
	known   bool
}

func (m *model) fairWorkerOf(wk *workerSim) *fairWorker {
	if m.fw == nil {
		m.fw = map[int]*fairWorker{}
	}
	fw := m.fw[wk.idx]
	if fw == nil {
		fw = &fairWorker{}
		m.fw[wk.idx] = fw
	}
	q := m.w.cfg.Queues[wk.queue]
	if len(fw.starts) != len(q.Stickiness) {
		fw.starts = make([]time.Time, len(q.Stickiness))
	}
	return fw
}

func (m *model) limitsOf(wk *workerSim) []time.Duration {
	q := m.w.cfg.Queues[wk.queue]
	out := make([]time.Duration, 0, len(q.Stickiness))
	for _, s := range q.Stickiness {
		out = append(out, time.Duration(s)*time.Second)
	}
	return out
}

func lcaOfOps(vt *scheduler.VerifTask) []string {
	var lca []string
	for i, o := range vt.Operations {
		if i == 0 {
			lca = append([]string(nil), o.InvocationIDs...)
		} else {
			lca = lca[:commonPrefixLen(lca, o.InvocationIDs)]
		}
	}
	return lca
}

// fairBeforeStep refreshes the model's stickiness state from what the
// previous snapshot and this step's request imply. Called right before a
// Synchronize request is sent.
func (m *model) fairOnSyncStart(wk *workerSim, res *syncResult) {
	if !m.fair || m.prev == nil {
		return
	}
	fw := m.fairWorkerOf(wk)
	var vw *scheduler.VerifWorker
	for _, x := range m.prev.Workers {
		if x.Key == workerKeyOf(wk) && x.QueueName == m.queueNameOf(wk) {
			vw = x
		}
	}
	if vw == nil {
		// Unknown to the scheduler: it will be created afresh, associated
		// with the root invocation.
		fw.lastInv = nil
		fw.starts = make([]time.Time, len(fw.starts))
		fw.known = true
		return
	}
	if vw.CurrentTask != nil {
		matches := false
		completed := false
		if ex := res.req.GetCurrentState().GetExecuting(); ex != nil && protoDigestEqual(ex.ActionDigest, vw.CurrentTask.DesiredState.ActionDigest) {
			matches = true
			completed = ex.GetCompleted() != nil
		}
		if matches && completed {
			// Completed by the worker: it last served the lowest common
			// ancestor of the task's invocations.
			fw.lastInv = lcaOfOps(vw.CurrentTask)
		} else if !matches {
			// The task may be failed by the scheduler in this call; then
			// the worker returns to the root invocation. Resolved after
			// the step from the outcome.
			fw.lastInv = nil
		}
	}
}

func protoDigestEqual(a, b *remoteexecution.Digest) bool {
	return a.GetHash() == b.GetHash() && a.GetSizeBytes() == b.GetSizeBytes()
}

// fairOnTaskLeftWorker: a task stopped executing on a worker for a reason
// other than the worker reporting its completion.
func (m *model) fairOnNonWorkerCompletion(workerKey, queue string) {
	if !m.fair {
		return
	}
	for _, wk := range m.w.workers {
		if workerKeyOf(wk) == workerKey && m.queueNameOf(wk) == queue {
			m.fairWorkerOf(wk).lastInv = nil
		}
	}
}

// fairCheckPick validates a task handed to a worker that asked for work
// while it had none (pure pick from the queue).
func (m *model) fairCheckPick(wk *workerSim, vt *scheduler.VerifTask, now time.Time, schedulerStarts []int64) {
	w := m.w
	fw := m.fairWorkerOf(wk)
	tree := buildFairTree(m.prev, m.queueNameOf(wk))
	st := &stickiness{lastInv: fw.lastInv, starts: fw.starts, limits: m.limitsOf(wk), now: now}
	dec := tree.decide(st)
	m.labels["fair_decisions"]++
	for _, e := range st.events {
		m.labels[e]++
	}
	if len(dec.acceptable) == 0 {
		w.failf("C04: worker %d was handed task %s although the model sees nothing queued in %s\n%s", wk.idx, actionIDOf(vt.DesiredState), m.queueNameOf(wk), describeTree(tree, "    "))
	}
	if dec.singleton {
		m.labels["fair_singleton"]++
	}
	nQueuedTasks := 0
	for _, x := range m.prev.Tasks {
		if x.QueueName == m.queueNameOf(wk) && x.Stage == remoteexecution.ExecutionStage_QUEUED {
			nQueuedTasks++
		}
	}
	if nQueuedTasks >= 2 {
		m.labels["fair_choice_among_2plus"]++
	}
	if tree.hasDirectAndQueuedChildren() {
		m.labels["fair_direct_operations_vs_queued_children"]++
	}
	ok := false
	retained := 0
	retainedValues := map[int]bool{}
	for _, o := range vt.Operations {
		if dec.acceptable[o.Name] {
			ok = true
			retainedValues[dec.retained[o.Name]] = true
			if dec.retained[o.Name] > retained {
				retained = dec.retained[o.Name]
			}
		}
	}
	if len(retainedValues) > 1 {
		// In-flight deduplication: the same task is an acceptable pick
		// through more than one invocation, and the paths retain a
		// different number of stickiness levels. Which path was taken
		// cannot be seen from the response; resolve it from the
		// starting times the scheduler reports, provided they are what
		// one of the acceptable paths produces.
		m.labels["fair_retained_ambiguous"]++
		for r := len(fw.starts); r >= 0; r-- {
			if !retainedValues[r] {
				continue
			}
			match := len(schedulerStarts) == len(fw.starts)
			for l := 0; match && l < len(fw.starts); l++ {
				want := fw.starts[l]
				if l >= r {
					want = now
				}
				if schedulerStarts[l] != want.UnixNano() && !(want.IsZero() && schedulerStarts[l] == (time.Time{}).UnixNano()) {
					match = false
				}
			}
			if match {
				retained = r
				break
			}
		}
	}
	if !ok {
		var names []string
		for n := range dec.acceptable {
			if t := m.byOp[n]; t != nil {
				names = append(names, t.actionID+"("+shortName(n)+")")
			}
		}
		sort.Strings(names)
		w.failf("C04: worker %d (last served %v, stickiness starts %v, limits %v, now %s) was handed task %s, but the documented policy prescribes one of %v\nqueue %s before the request:\n%s",
			wk.idx, shortPath(fw.lastInv), relTimes(fw.starts, m.startAt), m.limitsOf(wk), now.Sub(m.startAt), actionIDOf(vt.DesiredState), names, m.queueNameOf(wk), describeTree(tree, "    "))
	}
	if retained > 0 {
		m.labels[fmt.Sprintf("fair_sticky_retained_%d", retained)]++
	}
	depth := 0
	for _, o := range vt.Operations {
		if len(o.InvocationIDs) > depth {
			depth = len(o.InvocationIDs)
		}
	}
	if depth >= 2 {
		m.labels["fair_nested_depth2plus"]++
	}
	for l := retained; l < len(fw.starts); l++ {
		fw.starts[l] = now
	}
	fw.lastInv = nil
}

func relTimes(ts []time.Time, base time.Time) []string {
	out := make([]string, 0, len(ts))
	for _, t := range ts {
		if t.IsZero() {
			out = append(out, "never")
		} else {
			out = append(out, t.Sub(base).String())
		}
	}
	return out
}

// fairCheckHandOff validates the choice of worker for a task that was
// handed to a blocked worker directly.
func (m *model) fairCheckHandOff(wk *workerSim, vt *scheduler.VerifTask, now time.Time) {
	w := m.w
	qn := m.queueNameOf(wk)
	best := -1
	mine := -1
	for _, vw := range m.prev.Workers {
		if vw.QueueName != qn || !vw.Blocked || vw.Terminating {
			continue
		}
		for _, x := range w.workers {
			if workerKeyOf(x) != vw.Key || m.queueNameOf(x) != qn {
				continue
			}
			fw := m.fairWorkerOf(x)
			c := 0
			for _, o := range vt.Operations {
				if l := commonPrefixLen(fw.lastInv, o.InvocationIDs); l > c {
					c = l
				}
			}
			if c > best {
				best = c
			}
			if x == wk {
				mine = c
			}
		}
	}
	m.labels["fair_handoffs"]++
	if mine < 0 {
		return // the worker was not blocked before: not a hand-off
	}
	if best > 0 {
		m.labels["fair_handoff_related_worker_available"]++
	}
	if mine < best {
		w.failf("C04: task %s (invocation %v) was handed to blocked worker %d, which last served %v (common prefix %d), although a blocked worker sharing %d invocation levels was available", actionIDOf(vt.DesiredState), shortPath(vt.Operations[0].InvocationIDs), wk.idx, shortPath(m.fairWorkerOf(wk).lastInv), mine, best)
	}
	fw := m.fairWorkerOf(wk)
	for l := range fw.starts {
		fw.starts[l] = now
	}
	fw.lastInv = nil
}

// hasDirectAndQueuedChildren reports whether some invocation on the path
// the decision walks holds both directly queued operations and a queued
// child invocation (the documented policy serves the direct ones first).
func (n *fNode) hasDirectAndQueuedChildren() bool {
	queuedChild := false
	for _, c := range n.children {
		if c.isQueued() {
			queuedChild = true
		}
	}
	if len(n.ops) > 0 && queuedChild {
		return true
	}
	for _, c := range n.children {
		if c.hasDirectAndQueuedChildren() {
			return true
		}
	}
	return false
}

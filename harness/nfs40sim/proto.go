package nfs40sim

import (
	"bytes"
	"encoding/hex"
	"fmt"
	"io"
	"math"

	nfsv4 "github.com/buildbarn/go-xdr/pkg/protocols/nfsv4"
)

// Operation kinds of the simulator. Each is one COMPOUND of a fixed shape.
const (
	kSetclientid        = "setclientid"         // [SETCLIENTID]
	kSetclientidConfirm = "setclientid_confirm" // [SETCLIENTID_CONFIRM]
	kRenew              = "renew"               // [RENEW]
	kOpen               = "open"                // [fh, OPEN, GETFH]
	kOpenConfirm        = "open_confirm"        // [fh, OPEN_CONFIRM]
	kOpenDowngrade      = "open_downgrade"      // [fh, OPEN_DOWNGRADE]
	kClose              = "close"               // [fh, CLOSE]
	kLock               = "lock"                // [fh, LOCK]
	kLockt              = "lockt"               // [fh, LOCKT]
	kLocku              = "locku"               // [fh, LOCKU]
	kReleaseLockowner   = "release_lockowner"   // [RELEASE_LOCKOWNER]
	kRead               = "read"                // [fh, READ]
	kWrite              = "write"               // [fh, WRITE]
	kSetattr            = "setattr"             // [fh, SETATTR(size)]
	kRemove             = "remove"              // [PUTROOTFH, REMOVE]
	kLookup             = "lookup"              // [PUTROOTFH, LOOKUP, GETFH]
	kPutfh              = "putfh"               // [PUTFH, GETFH]
)

// sid is a state ID in script form.
type sid struct {
	Seq   uint32 `json:"seq"`
	Other string `json:"other"` // hex of the 12 byte "other" field
}

func (s sid) String() string { return fmt.Sprintf("%d:%s", s.Seq, s.Other) }

func sidFromWire(w nfsv4.Stateid4) sid {
	return sid{Seq: w.Seqid, Other: hex.EncodeToString(w.Other[:])}
}

func (s sid) wire() nfsv4.Stateid4 {
	var w nfsv4.Stateid4
	w.Seqid = s.Seq
	b, _ := hex.DecodeString(s.Other)
	copy(w.Other[:], b)
	return w
}

var (
	sidAnonymous = sid{Seq: 0, Other: "000000000000000000000000"}
	sidBypass    = sid{Seq: math.MaxUint32, Other: "ffffffffffffffffffffffff"}
)

func (s sid) isSpecialOther() bool {
	return s.Other == sidAnonymous.Other || s.Other == sidBypass.Other
}

// opSpec is one concrete request: the script step and the input of both
// the real program and the reference model.
type opSpec struct {
	N      int    `json:"n"`
	Kind   string `json:"k"`
	Client int    `json:"c"` // index of the issuing client simulator
	Note   string `json:"note,omitempty"`
	Park   string `json:"park,omitempty"`
	Retx   int    `json:"retx,omitempty"` // N of the step this is a (possibly altered) retransmission of
	// Gate: each time the request has had to wait for the transaction
	// of its open-owner, the harness holds it at the clock reading at the
	// top of enter() (before it reacquires the server lock) until a
	// "release" step lets it go.
	Gate bool `json:"gate,omitempty"`

	// One-shot fault the fakes fire for this request (see fakes.go) and
	// the status it reports (io, access, rofs, nxio).
	Fault   string `json:"fault,omitempty"`
	FaultSt string `json:"faultst,omitempty"`

	// SETCLIENTID / SETCLIENTID_CONFIRM / RENEW / owners.
	LongID   string `json:"long,omitempty"`
	Verifier uint64 `json:"verf,omitempty"`
	ClientID uint64 `json:"cid,omitempty"`
	Confirm  string `json:"conf,omitempty"` // hex of the 8 byte confirm verifier

	FH   string `json:"fh,omitempty"` // "root", "" (no file handle op) or hex handle
	Name string `json:"name,omitempty"`

	Owner  string `json:"owner,omitempty"`
	Seq    uint32 `json:"seq,omitempty"`
	Access uint32 `json:"acc,omitempty"`
	Deny   uint32 `json:"deny,omitempty"`
	Claim  string `json:"claim,omitempty"` // "" (CLAIM_NULL), previous, previous_deleg, delegate_cur, delegate_prev
	How    string `json:"how,omitempty"`   // nocreate, unchecked, unchecked_trunc, unchecked_size3, guarded, guarded_size3, exclusive

	Stateid sid `json:"sid,omitempty"`

	NewLO     bool   `json:"newlo,omitempty"`
	LockOwner string `json:"lo,omitempty"`
	LockCID   uint64 `json:"locid,omitempty"`
	LockSeq   uint32 `json:"lseq,omitempty"`
	LockType  int32  `json:"lt,omitempty"`
	Offset    uint64 `json:"off,omitempty"`
	Length    uint64 `json:"len,omitempty"`

	Count uint32 `json:"cnt,omitempty"`
	Data  string `json:"data,omitempty"`
	Size  uint64 `json:"size,omitempty"`

	// Filled in after execution.
	Out string `json:"out,omitempty"`
}

func sizeFattr(size uint64) nfsv4.Fattr4 {
	w := bytes.NewBuffer(nil)
	nfsv4.WriteUint64T(w, size)
	return nfsv4.Fattr4{Attrmask: nfsv4.Bitmap4{1 << nfsv4.FATTR4_SIZE}, AttrVals: w.Bytes()}
}

func emptyFattr() nfsv4.Fattr4 {
	return nfsv4.Fattr4{Attrmask: nfsv4.Bitmap4{}, AttrVals: []byte{}}
}

func confirmFromHex(s string) (v [8]byte) {
	b, _ := hex.DecodeString(s)
	copy(v[:], b)
	return v
}

func verifierBytes(v uint64) (b [8]byte) {
	for i := 0; i < 8; i++ {
		b[i] = byte(v >> (8 * i))
	}
	return b
}

func fhOps(fh string) []nfsv4.NfsArgop4 {
	switch fh {
	case "":
		return nil
	case "root":
		return []nfsv4.NfsArgop4{&nfsv4.NfsArgop4_OP_PUTROOTFH{}}
	default:
		b, _ := hex.DecodeString(fh)
		return []nfsv4.NfsArgop4{&nfsv4.NfsArgop4_OP_PUTFH{Opputfh: nfsv4.Putfh4args{Object: b}}}
	}
}

// buildCompound turns a step into the COMPOUND arguments.
func buildCompound(o *opSpec) *nfsv4.Compound4args {
	var ops []nfsv4.NfsArgop4
	switch o.Kind {
	case kSetclientid:
		ops = []nfsv4.NfsArgop4{&nfsv4.NfsArgop4_OP_SETCLIENTID{Opsetclientid: nfsv4.Setclientid4args{
			Client:        nfsv4.NfsClientId4{Verifier: verifierBytes(o.Verifier), Id: []byte(o.LongID)},
			Callback:      nfsv4.CbClient4{CbProgram: 0x40000000, CbLocation: nfsv4.Clientaddr4{NaRNetid: "tcp", NaRAddr: "127.0.0.1.3.232"}},
			CallbackIdent: 1,
		}}}
	case kSetclientidConfirm:
		ops = []nfsv4.NfsArgop4{&nfsv4.NfsArgop4_OP_SETCLIENTID_CONFIRM{OpsetclientidConfirm: nfsv4.SetclientidConfirm4args{
			Clientid: o.ClientID, SetclientidConfirm: confirmFromHex(o.Confirm),
		}}}
	case kRenew:
		ops = []nfsv4.NfsArgop4{&nfsv4.NfsArgop4_OP_RENEW{Oprenew: nfsv4.Renew4args{Clientid: o.ClientID}}}
	case kOpen:
		var how nfsv4.Openflag4
		switch o.How {
		case "nocreate":
			how = &nfsv4.Openflag4_default{Opentype: nfsv4.OPEN4_NOCREATE}
		case "unchecked":
			how = &nfsv4.Openflag4_OPEN4_CREATE{How: &nfsv4.Createhow4_UNCHECKED4{Createattrs: emptyFattr()}}
		case "unchecked_trunc":
			how = &nfsv4.Openflag4_OPEN4_CREATE{How: &nfsv4.Createhow4_UNCHECKED4{Createattrs: sizeFattr(0)}}
		case "unchecked_size3":
			how = &nfsv4.Openflag4_OPEN4_CREATE{How: &nfsv4.Createhow4_UNCHECKED4{Createattrs: sizeFattr(3)}}
		case "guarded":
			how = &nfsv4.Openflag4_OPEN4_CREATE{How: &nfsv4.Createhow4_GUARDED4{Createattrs: emptyFattr()}}
		case "guarded_size3":
			how = &nfsv4.Openflag4_OPEN4_CREATE{How: &nfsv4.Createhow4_GUARDED4{Createattrs: sizeFattr(3)}}
		case "exclusive":
			how = &nfsv4.Openflag4_OPEN4_CREATE{How: &nfsv4.Createhow4_EXCLUSIVE4{Createverf: verifierBytes(0x1122334455667788)}}
		default:
			panic("harness: unknown open how " + o.How)
		}
		var claim nfsv4.OpenClaim4
		switch o.Claim {
		case "":
			claim = &nfsv4.OpenClaim4_CLAIM_NULL{File: o.Name}
		case "previous":
			claim = &nfsv4.OpenClaim4_CLAIM_PREVIOUS{DelegateType: nfsv4.OPEN_DELEGATE_NONE}
		case "previous_deleg":
			claim = &nfsv4.OpenClaim4_CLAIM_PREVIOUS{DelegateType: nfsv4.OPEN_DELEGATE_READ}
		case "delegate_cur":
			claim = &nfsv4.OpenClaim4_CLAIM_DELEGATE_CUR{DelegateCurInfo: nfsv4.OpenClaimDelegateCur4{DelegateStateid: o.Stateid.wire(), File: o.Name}}
		case "delegate_prev":
			claim = &nfsv4.OpenClaim4_CLAIM_DELEGATE_PREV{FileDelegatePrev: o.Name}
		default:
			panic("harness: unknown claim " + o.Claim)
		}
		ops = append(fhOps(o.FH),
			&nfsv4.NfsArgop4_OP_OPEN{Opopen: nfsv4.Open4args{
				Seqid:       o.Seq,
				ShareAccess: o.Access,
				ShareDeny:   o.Deny,
				Owner:       nfsv4.OpenOwner4{Clientid: o.ClientID, Owner: []byte(o.Owner)},
				Openhow:     how,
				Claim:       claim,
			}},
			&nfsv4.NfsArgop4_OP_GETFH{})
	case kOpenConfirm:
		ops = append(fhOps(o.FH), &nfsv4.NfsArgop4_OP_OPEN_CONFIRM{OpopenConfirm: nfsv4.OpenConfirm4args{OpenStateid: o.Stateid.wire(), Seqid: o.Seq}})
	case kOpenDowngrade:
		ops = append(fhOps(o.FH), &nfsv4.NfsArgop4_OP_OPEN_DOWNGRADE{OpopenDowngrade: nfsv4.OpenDowngrade4args{OpenStateid: o.Stateid.wire(), Seqid: o.Seq, ShareAccess: o.Access, ShareDeny: o.Deny}})
	case kClose:
		ops = append(fhOps(o.FH), &nfsv4.NfsArgop4_OP_CLOSE{Opclose: nfsv4.Close4args{Seqid: o.Seq, OpenStateid: o.Stateid.wire()}})
	case kLock:
		var locker nfsv4.Locker4
		if o.NewLO {
			locker = &nfsv4.Locker4_TRUE{OpenOwner: nfsv4.OpenToLockOwner4{
				OpenSeqid:   o.Seq,
				OpenStateid: o.Stateid.wire(),
				LockSeqid:   o.LockSeq,
				LockOwner:   nfsv4.LockOwner4{Clientid: o.LockCID, Owner: []byte(o.LockOwner)},
			}}
		} else {
			locker = &nfsv4.Locker4_FALSE{LockOwner: nfsv4.ExistLockOwner4{LockStateid: o.Stateid.wire(), LockSeqid: o.LockSeq}}
		}
		ops = append(fhOps(o.FH), &nfsv4.NfsArgop4_OP_LOCK{Oplock: nfsv4.Lock4args{
			Locktype: nfsv4.NfsLockType4(o.LockType), Reclaim: false, Offset: o.Offset, Length: o.Length, Locker: locker,
		}})
	case kLockt:
		ops = append(fhOps(o.FH), &nfsv4.NfsArgop4_OP_LOCKT{Oplockt: nfsv4.Lockt4args{
			Locktype: nfsv4.NfsLockType4(o.LockType), Offset: o.Offset, Length: o.Length,
			Owner: nfsv4.LockOwner4{Clientid: o.LockCID, Owner: []byte(o.LockOwner)},
		}})
	case kLocku:
		ops = append(fhOps(o.FH), &nfsv4.NfsArgop4_OP_LOCKU{Oplocku: nfsv4.Locku4args{
			Locktype: nfsv4.NfsLockType4(o.LockType), Seqid: o.LockSeq, LockStateid: o.Stateid.wire(), Offset: o.Offset, Length: o.Length,
		}})
	case kReleaseLockowner:
		ops = []nfsv4.NfsArgop4{&nfsv4.NfsArgop4_OP_RELEASE_LOCKOWNER{OpreleaseLockowner: nfsv4.ReleaseLockowner4args{
			LockOwner: nfsv4.LockOwner4{Clientid: o.LockCID, Owner: []byte(o.LockOwner)},
		}}}
	case kRead:
		ops = append(fhOps(o.FH), &nfsv4.NfsArgop4_OP_READ{Opread: nfsv4.Read4args{Stateid: o.Stateid.wire(), Offset: o.Offset, Count: o.Count}})
	case kWrite:
		ops = append(fhOps(o.FH), &nfsv4.NfsArgop4_OP_WRITE{Opwrite: nfsv4.Write4args{Stateid: o.Stateid.wire(), Offset: o.Offset, Stable: nfsv4.FILE_SYNC4, Data: []byte(o.Data)}})
	case kSetattr:
		ops = append(fhOps(o.FH), &nfsv4.NfsArgop4_OP_SETATTR{Opsetattr: nfsv4.Setattr4args{Stateid: o.Stateid.wire(), ObjAttributes: sizeFattr(o.Size)}})
	case kRemove:
		ops = append(fhOps("root"), &nfsv4.NfsArgop4_OP_REMOVE{Opremove: nfsv4.Remove4args{Target: o.Name}})
	case kLookup:
		ops = append(fhOps("root"), &nfsv4.NfsArgop4_OP_LOOKUP{Oplookup: nfsv4.Lookup4args{Objname: o.Name}}, &nfsv4.NfsArgop4_OP_GETFH{})
	case kPutfh:
		ops = append(fhOps(o.FH), &nfsv4.NfsArgop4_OP_GETFH{})
	default:
		panic("harness: unknown op kind " + o.Kind)
	}
	return &nfsv4.Compound4args{Tag: o.Kind, Minorversion: 0, Argarray: ops}
}

// mainIndex is the position of the state-bearing operation in the
// COMPOUND of a step (after the file handle operation, if any).
func mainIndex(o *opSpec) int {
	switch o.Kind {
	case kSetclientid, kSetclientidConfirm, kRenew, kReleaseLockowner:
		return 0
	case kRemove, kLookup:
		return 1
	case kPutfh:
		return len(fhOps(o.FH))
	default:
		return len(fhOps(o.FH))
	}
}

func encode(w io.WriterTo) []byte {
	b := bytes.NewBuffer(nil)
	if _, err := w.WriteTo(b); err != nil {
		panic(fmt.Sprintf("harness: XDR encoding failed: %v", err))
	}
	return b.Bytes()
}

// resStatus extracts the status of one result operation.
func resStatus(r nfsv4.NfsResop4) nfsv4.Nfsstat4 {
	switch v := r.(type) {
	case *nfsv4.NfsResop4_OP_SETCLIENTID:
		return v.Opsetclientid.GetStatus()
	case *nfsv4.NfsResop4_OP_SETCLIENTID_CONFIRM:
		return v.OpsetclientidConfirm.Status
	case *nfsv4.NfsResop4_OP_RENEW:
		return v.Oprenew.Status
	case *nfsv4.NfsResop4_OP_PUTROOTFH:
		return v.Opputrootfh.Status
	case *nfsv4.NfsResop4_OP_PUTFH:
		return v.Opputfh.Status
	case *nfsv4.NfsResop4_OP_GETFH:
		return v.Opgetfh.GetStatus()
	case *nfsv4.NfsResop4_OP_OPEN:
		return v.Opopen.GetStatus()
	case *nfsv4.NfsResop4_OP_OPEN_CONFIRM:
		return v.OpopenConfirm.GetStatus()
	case *nfsv4.NfsResop4_OP_OPEN_DOWNGRADE:
		return v.OpopenDowngrade.GetStatus()
	case *nfsv4.NfsResop4_OP_CLOSE:
		return v.Opclose.GetStatus()
	case *nfsv4.NfsResop4_OP_LOCK:
		return v.Oplock.GetStatus()
	case *nfsv4.NfsResop4_OP_LOCKT:
		return v.Oplockt.GetStatus()
	case *nfsv4.NfsResop4_OP_LOCKU:
		return v.Oplocku.GetStatus()
	case *nfsv4.NfsResop4_OP_RELEASE_LOCKOWNER:
		return v.OpreleaseLockowner.Status
	case *nfsv4.NfsResop4_OP_READ:
		return v.Opread.GetStatus()
	case *nfsv4.NfsResop4_OP_WRITE:
		return v.Opwrite.GetStatus()
	case *nfsv4.NfsResop4_OP_SETATTR:
		return v.Opsetattr.Status
	case *nfsv4.NfsResop4_OP_REMOVE:
		return v.Opremove.GetStatus()
	case *nfsv4.NfsResop4_OP_LOOKUP:
		return v.Oplookup.Status
	default:
		panic(fmt.Sprintf("harness: unexpected result operation %T", r))
	}
}

// faultNfsStatus is the NFSv4 status the protocol assigns to the
// file system error a fault reports.
func faultNfsStatus(name string) nfsv4.Nfsstat4 {
	switch name {
	case "io":
		return nfsv4.NFS4ERR_IO
	case "access":
		return nfsv4.NFS4ERR_ACCESS
	case "rofs":
		return nfsv4.NFS4ERR_ROFS
	case "nxio":
		return nfsv4.NFS4ERR_NXIO
	}
	panic("harness: unknown fault status " + name)
}

func statusName(s nfsv4.Nfsstat4) string {
	if n, ok := nfsv4.Nfsstat4_name[s]; ok {
		return n
	}
	return fmt.Sprintf("status(%d)", int32(s))
}

// describe renders the statuses of a reply.
func describe(res *nfsv4.Compound4res) string {
	if res == nil {
		return "<no reply>"
	}
	s := ""
	for i, r := range res.Resarray {
		if i > 0 {
			s += ","
		}
		s += statusName(resStatus(r))
	}
	return "[" + s + "]"
}

// transactionShouldAdvance is the rule of RFC 7530 section 9.1.7: the
// owner's seqid advances unless the operation failed with one of these.
func seqidAdvances(st nfsv4.Nfsstat4) bool {
	switch st {
	case nfsv4.NFS4ERR_STALE_CLIENTID, nfsv4.NFS4ERR_STALE_STATEID, nfsv4.NFS4ERR_BAD_STATEID,
		nfsv4.NFS4ERR_BAD_SEQID, nfsv4.NFS4ERR_BADXDR, nfsv4.NFS4ERR_RESOURCE,
		nfsv4.NFS4ERR_NOFILEHANDLE, nfsv4.NFS4ERR_MOVED:
		return false
	}
	return true
}

func nextSeq(s uint32) uint32 {
	if s == math.MaxUint32 {
		return 1
	}
	return s + 1
}

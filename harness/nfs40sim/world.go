package nfs40sim

import (
	"bytes"
	"context"
	"encoding/hex"
	"fmt"
	"runtime/debug"
	"sort"
	"strings"
	"testing/synctest"
	"time"

	"github.com/buildbarn/bb-remote-execution/pkg/filesystem/virtual"
	nfsv4srv "github.com/buildbarn/bb-remote-execution/pkg/filesystem/virtual/nfsv4"
	"github.com/buildbarn/bb-storage/pkg/filesystem/path"
	nfsv4 "github.com/buildbarn/go-xdr/pkg/protocols/nfsv4"
	"pgregory.net/rapid"
)

const leaseTime = 100 * time.Second

var stateIDPrefix = [4]byte{0x5a, 0x17, 0xc0, 0xde}

// flight is a COMPOUND that has been issued and has not returned yet.
type flight struct {
	op     *opSpec
	ctl    *opCtl
	done   chan *nfsv4.Compound4res
	inf    *inflight
	client *cClient
	before snapshot
	sweepy bool
	busy   *cOwner

	everBlocked bool
	panicked    string
}

type world struct {
	rt   *rapid.T
	prof *profile

	clock   *simClock
	program nfsv4.Nfs4Program
	pool    *nfsv4srv.OpenedFilesPool
	root    virtual.PrepopulatedDirectory
	nfs     *virtual.NFSStatefulHandleAllocator
	reg     *leafRegistry
	errlog  *errorLog

	m       *model
	clients []*cClient
	// observer is a client of its own whose only job is to read the
	// lock tables back through LOCKT (see scan.go).
	observer *cClient
	script   []*opSpec
	stepNo   int
	flights  []*flight
	issued   []*flight // every request of the case
	labels   map[string]int
	diags    map[string]int
	evMain   map[string]int // model events before the final drain
	labMain  map[string]int // world labels before the final drain

	lockProbes int
	scanning   bool

	forceOwner *cOwner // genOp(kOpen): use this open-owner
	windowSeq  uint32  // reentryWindow: seqid of the owner's latest request
	inWindow   bool

	// presetAt: 'other' field of every state ID whose seqid was placed
	// next to its wrap-around (preset.go) -> number of that script step.
	presetAt map[string]int
}

func newWorld(rt *rapid.T, prof *profile, nClients int) *world {
	w := &world{rt: rt, prof: prof, clock: &simClock{}, reg: &leafRegistry{}, errlog: &errorLog{}, labels: map[string]int{}, diags: map[string]int{}}
	w.nfs = virtual.NewNFSHandleAllocator(&seqRNG{salt: 0x1111})
	setter := func(requested virtual.AttributesMask, attributes *virtual.Attributes) {}
	symlinks := virtual.NewBaseSymlinkFactory(setter)
	alloc := &countingAllocator{
		base: virtual.NewPoolBackedFileAllocator(memPool{}, w.errlog, setter, virtual.NoNamedAttributesFactory),
		reg:  w.reg,
	}
	files := virtual.NewHandleAllocatingFileAllocator(alloc, w.nfs)
	w.root = virtual.NewInMemoryPrepopulatedDirectory(files, symlinks, w.errlog, w.nfs, sort.Sort, func(string) bool { return false }, w.clock, virtual.CaseSensitiveComponentNormalizer, setter, virtual.NoNamedAttributesFactory)
	w.pool = nfsv4srv.NewOpenedFilesPool(w.nfs.ResolveHandle)
	w.program = nfsv4srv.NewNFS40Program(
		&parkingDirectory{Directory: w.root, alloc: alloc},
		w.pool,
		&seqRNG{salt: 0x2222},
		nfsv4.Verifier4{1, 2, 3, 4, 5, 6, 7, 8},
		stateIDPrefix,
		w.clock,
		leaseTime, leaseTime/2,
		path.UNIXFormat,
		nil,
	)
	w.m = newModel(leaseTime, stateIDPrefix)
	var attrs virtual.Attributes
	w.root.VirtualGetAttributes(context.Background(), virtual.AttributesMaskFileHandle, &attrs)
	w.m.rootFH = hex.EncodeToString(attrs.GetFileHandle())
	for i := 0; i < nClients; i++ {
		c := newClient(i)
		if rt != nil {
			w.drawInitialSeqids(c)
		}
		w.clients = append(w.clients, c)
	}
	return w
}

func (w *world) label(l string) { w.labels[l]++ }

func (w *world) fail(class, format string, a ...any) {
	panic(violation{class: class, msg: fmt.Sprintf(format, a...)})
}

// ---------------------------------------------------------------------
// Snapshots for the "no side effects" oracle.
// ---------------------------------------------------------------------

type snapshot struct {
	leaves string
	dir    uint64
	counts string
	pool   int
}

func fmtCounts(c map[string]int) string {
	keys := make([]string, 0, len(c))
	for k, v := range c {
		if v != 0 {
			keys = append(keys, k)
		}
	}
	sort.Strings(keys)
	var b strings.Builder
	for _, k := range keys {
		fmt.Fprintf(&b, "%s=%d ", k, c[k])
	}
	return b.String()
}

func (w *world) snap() snapshot {
	var s snapshot
	var b strings.Builder
	for _, l := range w.reg.all() {
		o, c, io, _ := l.snapshot()
		fmt.Fprintf(&b, "leaf#%d opens=%v closes=%v io=%d; ", l.idx, o, c, io)
	}
	s.leaves = b.String()
	if free, known := virtual.VerifLockIsFree(w.root); known && !free {
		// Leaked directory lock: asking for the change ID would hang.
		// checkLocksFree reports it.
		s.dir = ^uint64(0)
	} else {
		var attrs virtual.Attributes
		w.root.VirtualGetAttributes(context.Background(), virtual.AttributesMaskChangeID, &attrs)
		s.dir = attrs.GetChangeID()
	}
	if c, free := nfsv4srv.VerifStateCounts(w.program); free {
		s.counts = fmtCounts(c)
	} else {
		s.counts = "<program lock held>"
	}
	s.pool, _ = w.pool.VerifOpenedCount()
	return s
}

// ---------------------------------------------------------------------
// Issuing requests.
// ---------------------------------------------------------------------

func (w *world) script1() string {
	var b strings.Builder
	for _, s := range w.script {
		fmt.Fprintf(&b, "  %s\n", fmtStep(s))
	}
	return b.String()
}

func fmtStep(s *opSpec) string {
	c := *s
	out := c.Out
	c.Out = ""
	c.N = 0
	c.Kind = ""
	j := fmt.Sprintf("%+v", c)
	_ = j
	var parts []string
	add := func(k string, v any, show bool) {
		if show {
			parts = append(parts, fmt.Sprintf("%s=%v", k, v))
		}
	}
	add("c", s.Client, s.Kind != "advance" && s.Kind != "release")
	add("seqid_set_to", s.Size, s.Kind == kPreset)
	add("long", s.LongID, s.LongID != "")
	add("verf", s.Verifier, s.Kind == kSetclientid)
	add("cid", fmt.Sprintf("%#x", s.ClientID), s.ClientID != 0)
	add("conf", s.Confirm, s.Confirm != "")
	add("fh", s.FH, s.FH != "")
	add("name", s.Name, s.Name != "" || s.Kind == kOpen)
	add("owner", s.Owner, s.Owner != "")
	add("seq", s.Seq, s.Kind == kOpen || s.Kind == kOpenConfirm || s.Kind == kOpenDowngrade || s.Kind == kClose || (s.Kind == kLock && s.NewLO))
	add("acc", s.Access, s.Kind == kOpen || s.Kind == kOpenDowngrade)
	add("deny", s.Deny, s.Deny != 0)
	add("how", s.How, s.How != "")
	add("claim", s.Claim, s.Claim != "")
	add("sid", s.Stateid.String(), s.Stateid.Other != "")
	add("newlo", s.NewLO, s.Kind == kLock)
	add("lo", s.LockOwner, s.LockOwner != "")
	add("locid", fmt.Sprintf("%#x", s.LockCID), s.LockCID != 0)
	add("lseq", s.LockSeq, s.Kind == kLock || s.Kind == kLocku)
	add("lt", s.LockType, s.Kind == kLock || s.Kind == kLockt || s.Kind == kLocku)
	add("off", s.Offset, s.Kind == kLock || s.Kind == kLockt || s.Kind == kLocku || s.Kind == kRead || s.Kind == kWrite)
	add("len", s.Length, s.Kind == kLock || s.Kind == kLockt || s.Kind == kLocku)
	add("cnt", s.Count, s.Kind == kRead)
	add("data", s.Data, s.Kind == kWrite)
	add("size", s.Size, s.Kind == kSetattr || s.Kind == "advance")
	add("park", s.Park, s.Park != "")
	add("gate", s.Gate, s.Gate)
	add("fault", s.Fault+"/"+s.FaultSt, s.Fault != "")
	add("retx", s.Retx, s.Retx != 0)
	add("note", s.Note, s.Note != "")
	return fmt.Sprintf("%3d %-18s %s  => %s", s.N, s.Kind, strings.Join(parts, " "), out)
}

func (w *world) issue(c *cClient, op *opSpec) {
	w.stepNo++
	op.N = w.stepNo
	op.Client = c.idx
	w.script = append(w.script, op)
	w.label("op_" + op.Kind)
	if op.Note != "" {
		w.label("dev_" + op.Note)
	}

	fl := &flight{op: op, ctl: newOpCtl(op.Park), done: make(chan *nfsv4.Compound4res, 1), client: c}
	fl.ctl.fault, fl.ctl.faultSt = op.Fault, op.FaultSt
	if op.Fault != "" {
		w.label("fault_planned_" + op.Fault)
	}
	w.issued = append(w.issued, fl)
	fl.sweepy = w.m.sweepWould()
	fl.before = w.snap()
	args := buildCompound(op)
	ctx := context.WithValue(context.Background(), ctlKey{}, fl.ctl)
	go func() {
		w.clock.bind(fl.ctl)
		defer w.clock.unbind()
		defer func() {
			if r := recover(); r != nil {
				fl.panicked = fmt.Sprintf("%v\n%s", r, debug.Stack())
				fl.done <- nil
			}
		}()
		res, err := w.program.NfsV4Nfsproc4Compound(ctx, args)
		if err != nil {
			res = nil
		}
		fl.done <- res
	}()
	synctest.Wait()

	inf := &inflight{op: op, phase: "start"}
	fl.inf = inf
	w.observeInto(fl)
	sweepDue := fl.sweepy
	out := w.m.run(inf)
	w.settle(fl, out)
	w.checkQuiescent()
	if w.prof.scanLocks && !w.scanning && out.blocked == "" {
		reason := ""
		switch op.Kind {
		case kClose, kLocku, kReleaseLockowner:
			reason = "after_" + op.Kind
		case kSetclientidConfirm:
			if c != w.observer {
				reason = "after_" + op.Kind
			}
		default:
			if sweepDue && c != w.observer {
				reason = "after_lease_expiry"
			}
		}
		if reason != "" {
			w.scanning = true
			w.scanLocks(reason, false)
			w.scanning = false
		}
	}
}

// observed state of a flight after quiescence.
func (fl *flight) observe() (res *nfsv4.Compound4res, blocked string) {
	select {
	case res = <-fl.done:
		if res == nil {
			return nil, "error"
		}
		return res, ""
	default:
	}
	if at := fl.ctl.where(); at != "" {
		return nil, at
	}
	return nil, "wait"
}

// observeInto records what the real call did for the few places where
// the model accepts two answers, and how many other requests are in flight.
func (w *world) observeInto(fl *flight) {
	n := 0
	for _, x := range w.flights {
		if x != fl {
			n++
		}
	}
	w.m.otherFlights = n
	inf := fl.inf
	inf.obsHave = true
	inf.obsBlocked, inf.obsMain = "", 0
	select {
	case res := <-fl.done:
		fl.done <- res
		if res != nil {
			if mi := mainIndex(fl.op); len(res.Resarray) > mi {
				inf.obsMain = resStatus(res.Resarray[mi])
			} else if len(res.Resarray) > 0 {
				inf.obsMain = resStatus(res.Resarray[len(res.Resarray)-1])
			}
		}
	default:
		inf.obsBlocked = fl.ctl.where()
		if inf.obsBlocked == "" {
			inf.obsBlocked = "wait"
		}
	}
}

// settle compares the model's prediction with what the real call did.
func (w *world) settle(fl *flight, out outcome) {
	op := fl.op
	res, blocked := fl.observe()
	if blocked == "error" {
		if fl.panicked != "" {
			w.fail(w.prof.property, "step %d %s: the server panicked while executing the request: %s", op.N, op.Kind, fl.panicked)
		}
		w.fail(out.class, "step %d %s: COMPOUND returned a Go error", op.N, op.Kind)
	}
	if blocked != out.blocked {
		got := "completed with " + describe(res)
		if blocked != "" {
			got = "is blocked at '" + blocked + "'"
		}
		want := "complete"
		if out.blocked != "" {
			want = "block at '" + out.blocked + "'"
		}
		class := out.class
		if blocked == "wait" || out.blocked == "wait" {
			class = "C19"
		}
		w.fail(class, "step %d %s: the request %s, the model expects it to %s (%s)", op.N, op.Kind, got, want, out.why)
	}
	if blocked != "" {
		fl.everBlocked = true
		op.Out = "blocked@" + blocked
		if blocked == "wait" {
			fl.inf.waitOn.waiters++
			w.label("blocked_behind_transaction")
			if op.Retx != 0 {
				w.label("duplicate_while_original_in_flight")
			}
			if op.Gate {
				// The request's goroutine is durably blocked on the
				// transaction's channel: its next clock reading is the
				// one of enter() in waitForCurrentTransactionCompletion.
				fl.ctl.armGate(w.clock)
				w.label("waiter_to_be_held_at_reentry")
			}
		}
		for _, x := range w.flights {
			if x == fl {
				return
			}
		}
		w.flights = append(w.flights, fl)
		if o := fl.client.owner(op.Owner); o != nil {
			o.busy++
			fl.busy = o
		}
		return
	}
	// Completed.
	if fl.busy != nil {
		fl.busy.busy--
		fl.busy = nil
	}
	for i, x := range w.flights {
		if x == fl {
			w.flights = append(w.flights[:i], w.flights[i+1:]...)
			break
		}
	}
	op.Out = describe(res)
	match := len(res.Resarray) == len(out.sts)
	if match {
		for i, r := range res.Resarray {
			if resStatus(r) != out.sts[i] {
				match = false
			}
		}
	}
	if match && res.Status != out.sts[len(out.sts)-1] {
		match = false
	}
	if !match {
		var want []string
		for _, s := range out.sts {
			want = append(want, statusName(s))
		}
		w.fail(out.class, "step %d %s: reply %s (compound status %s), the model expects [%s]: %s", op.N, op.Kind, describe(res), statusName(res.Status), strings.Join(want, ","), out.why)
	}
	if res.Tag != op.Kind {
		w.fail("C18", "step %d %s: reply tag %q", op.N, op.Kind, res.Tag)
	}
	if out.replay != nil {
		got := encode(res.Resarray[len(fl.inf.pre)])
		if !bytes.Equal(got, out.replay.bytes) {
			w.fail("C19", "step %d %s: retransmission of step %d got a reply that is not byte-equal to the first reply\n first: %x\n now:   %x", op.N, op.Kind, out.replay.step, out.replay.bytes, got)
		}
		w.label("replay_byte_equal")
		if op.Kind == kOpen && out.replay.status == ok && out.replay.next != nil && len(res.Resarray) > len(fl.inf.pre)+1 {
			// The retransmitted COMPOUND is "PUTFH; OPEN; GETFH": the
			// reply the server gave the first time carried the handle
			// of the opened file in GETFH. A replayed OPEN has to
			// re-establish the current file handle for that (finding
			// C19/nfs40-replayed-open-loses-current-filehandle).
			if gotNext := encode(res.Resarray[len(fl.inf.pre)+1]); !bytes.Equal(gotNext, out.replay.next) {
				w.fail("C19", "step %d %s: retransmission of step %d: the OPEN was replayed from the cache, but the GETFH that follows it did not return what it returned the first time (the replay did not make the opened file the current file handle)\n first: %x\n now:   %x", op.N, op.Kind, out.replay.step, out.replay.next, gotNext)
			}
			w.label("replayed_open_getfh_equal")
		}
	}
	for _, c := range out.checks {
		if err := c.fn(res); err != nil {
			w.fail(c.class, "step %d %s: %v", op.N, op.Kind, err)
		}
	}
	if out.pure {
		if fl.everBlocked {
			w.label("side_effect_check_skipped_request_was_blocked")
		} else if fl.sweepy {
			w.label("side_effect_check_skipped_reclaim_due")
		} else if after := w.snap(); after != fl.before {
			class := out.class
			if out.replay != nil || class == "C19" {
				class = "C19"
			}
			w.fail(class, "step %d %s: the request was rejected/replayed (%s) but had side effects\n before: %+v\n after:  %+v", op.N, op.Kind, out.why, fl.before, after)
		} else {
			w.label("no_side_effects_verified")
		}
	}
	fl.client.learn(w, op, res, fl.inf)
}

// release lets a parked request continue; the request (and a request
// waiting behind its open-owner transaction) must then run to
// completion or to its own park point.
func (w *world) release(fl *flight) {
	w.stepNo++
	st := &opSpec{N: w.stepNo, Kind: "release", Retx: fl.op.N, Note: fl.ctl.where()}
	w.script = append(w.script, st)
	w.label("release_" + fl.ctl.where())
	waiters := []*flight{}
	if fl.inf.oo != nil {
		for _, x := range w.flights {
			if x != fl && x.inf.waitOn == fl.inf.oo {
				waiters = append(waiters, x)
			}
		}
	}
	fl.ctl.unpark()
	synctest.Wait()
	w.observeInto(fl)
	out := w.m.run(fl.inf)
	w.settle(fl, out)
	st.Out = fl.op.Out
	for _, x := range waiters {
		x.inf.waitOn.waiters--
		x.inf.waited, x.inf.waitOn = x.inf.waitOn, nil
		if x.op.Gate {
			// The transaction is over, the waiter woke up and is held
			// inside the clock reading of enter(): it has not reacquired
			// the server lock, so for the server (and the model) it has
			// not done anything yet. Whatever happens until the harness
			// lets it go happens before its lookups.
			if _, at := x.observe(); at != parkReenter {
				w.fail("C19", "step %d %s waited for the transaction of step %d; that transaction completed, but the waiter did not wake up (it is at '%s', expected at the clock reading of enter())", x.op.N, x.op.Kind, fl.op.N, at)
			}
			w.label("waiter_held_at_reentry")
			st.Out += fmt.Sprintf("; waiter %d: held@%s", x.op.N, parkReenter)
			continue
		}
		w.observeInto(x)
		out := w.m.run(x.inf)
		w.settle(x, out)
		st.Out += fmt.Sprintf("; waiter %d: %s", x.op.N, x.op.Out)
		if x.op.Retx != 0 && out.replay != nil {
			w.label("inflight_duplicate_got_original_reply")
		}
	}
	w.checkQuiescent()
}

func (w *world) advance(d time.Duration) {
	w.stepNo++
	w.script = append(w.script, &opSpec{N: w.stepNo, Kind: "advance", Size: uint64(d), Out: d.String()})
	w.clock.advance(d)
	w.m.now += d
	w.label("advance")
	w.checkQuiescent()
	if w.prof.scanLocks && !w.scanning && w.m.sweepWould() {
		// A lease ran out: the next call reclaims the client's state,
		// and with it exactly that client's locks.
		w.scanning = true
		w.scanLocks("after_lease_expiry", false)
		w.scanning = false
	}
}

// ---------------------------------------------------------------------
// Oracles evaluated at every quiescence.
// ---------------------------------------------------------------------

func (w *world) checkQuiescent() {
	leaves := w.reg.all()
	if len(leaves) != len(w.m.leaves) {
		w.fail("C18", "the file allocator created %d files, the replies imply %d", len(leaves), len(w.m.leaves))
	}
	held := w.m.held()
	// Requests that are held at the clock reading of enter() after
	// having waited hold nothing (no lock, no transaction, no file):
	// the accounting is as exact as without requests in flight.
	exact := true
	for _, fl := range w.flights {
		if fl.ctl.where() != parkReenter {
			exact = false
		}
	}
	if exact && len(w.flights) > 0 {
		w.labels["exact_accounting_while_waiters_held_at_reentry"]++
	}
	for _, l := range leaves {
		o, c, _, viol := l.snapshot()
		if len(viol) > 0 {
			w.fail("C18", "%s", strings.Join(viol, "; "))
		}
		for b, name := range []string{"read", "write"} {
			out := o[b] - c[b]
			if out < 0 {
				w.fail("C18", "leaf#%d closed for %s %d times but opened %d times", l.idx, name, c[b], o[b])
			}
			want := held[l.idx][b]
			if exact {
				if out != want {
					w.fail("C18", "leaf#%d: %d outstanding opens for %s (opens=%d closes=%d), the replies imply %d holders (open states incl. upgrades/downgrades, lock-owner clones, in-flight I/O)", l.idx, out, name, o[b], c[b], want)
				}
			} else if out < want {
				w.fail("C18", "leaf#%d: only %d outstanding opens for %s (opens=%d closes=%d) while the replies entitle %d holders", l.idx, out, name, o[b], c[b], want)
			}
		}
	}
	w.checkLocksFree()
	counts, _ := nfsv4srv.VerifStateCounts(w.program)
	if got, want := fmtCounts(counts), fmtCounts(w.m.stateCounts()); got != want {
		w.fail("C18", "server records: %s\n            the replies imply: %s", got, want)
	}
	n, _ := w.pool.VerifOpenedCount()
	if want := w.m.openedFiles(); n != want {
		w.fail("C18", "opened-files pool tracks %d files, the replies imply %d", n, want)
	}
	if got := w.errlog.count(); got != w.m.loggedErrors {
		w.fail("C18", "the file system logged %d errors (%v), the injected faults imply %d", got, w.errlog.all(), w.m.loggedErrors)
	}
}

// checkLocksFree is the C14 oracle of this simulator: whenever every
// request has returned or is parked inside one of the fakes (which park
// outside of every lock of the code under test), each lock of the NFS
// server, the opened-files pool (also the per-file lock of its lock
// tables), the handle allocator, the root directory and every file must
// be free. A lock that is still held was leaked by a request that has
// returned, whatever its outcome.
func (w *world) checkLocksFree() {
	w.lockProbes++
	if len(w.flights) > 0 {
		w.labels["locks_probed_while_requests_parked"]++
	}
	if _, free := nfsv4srv.VerifStateCounts(w.program); !free {
		w.fail("C14", "the program lock is held at quiescence (requests in flight: %d, all parked outside the server's locks)", len(w.flights))
	}
	if _, free := w.pool.VerifOpenedCount(); !free {
		w.fail("C14", "the opened-files pool lock is held at quiescence")
	}
	if _, free := w.pool.VerifUseCount(); !free {
		w.fail("C14", "the lock of an opened file's byte-range lock table is held at quiescence")
	}
	if !w.nfs.VerifNFSHandlePoolLockIsFree() {
		w.fail("C14", "the NFS handle pool lock is held at quiescence")
	}
	if free, known := virtual.VerifLockIsFree(w.root); known && !free {
		w.fail("C14", "the root directory lock is held at quiescence")
	}
	for _, l := range w.reg.all() {
		if free, known := virtual.VerifLeafLockIsFree(l.raw); known && !free {
			w.fail("C14", "the lock of file leaf#%d is held at quiescence", l.idx)
		} else if !known {
			w.fail("C14", "harness: the lock of leaf#%d (%T) cannot be probed", l.idx, l.raw)
		}
	}
}

// finish drains the case: release every parked request, let every lease
// expire, make one call, and require that nothing is retained.
func (w *world) finish() {
	for len(w.flights) > 0 {
		var fl *flight
		for _, x := range w.flights {
			if x.ctl.where() != "" {
				fl = x
				break
			}
		}
		if fl == nil {
			w.fail("C19", "requests %d.. are blocked but none is parked by the harness: deadlock", w.flights[0].op.N)
		}
		w.release(fl)
	}
	w.scanLocks("final_before_expiry", true)
	w.scanning = true // the observer must expire along with everybody else
	w.advance(leaseTime + time.Second)
	ghost := newClient(99)
	w.issue(ghost, &opSpec{Kind: kRenew, ClientID: 0xdeadbeef, Note: "final_probe"})
	w.scanning = false
	counts, _ := nfsv4srv.VerifStateCounts(w.program)
	if s := fmtCounts(counts); s != "" {
		w.fail("C18", "after all leases expired and one more call the server still retains: %s", s)
	}
	if n, _ := w.pool.VerifOpenedCount(); n != 0 {
		w.fail("C18", "after all leases expired the opened-files pool still tracks %d files", n)
	}
	for _, l := range w.reg.all() {
		o, c, _, _ := l.snapshot()
		if o != c {
			w.fail("C18", "after all leases expired leaf#%d has opens=%v closes=%v", l.idx, o, c)
		}
	}
	// Every unlinked file must now be unreachable, every linked one reachable.
	for _, l := range w.m.leaves {
		if l.fh == "" {
			continue
		}
		w.issue(ghost, &opSpec{Kind: kPutfh, FH: l.fh, Note: "final_probe"})
	}
	// No file is open any more: no lock may be left on any of them.
	w.scanLocks("final_after_expiry", true)
}

// unparkAll lets every parked request go (repeatedly: a request that
// waited behind a released one may park itself) so that the bubble can end.
func (w *world) unparkAll() {
	for _, fl := range w.issued {
		fl.ctl.openGate(w.clock)
	}
	for round := 0; round < 8; round++ {
		any := false
		for _, fl := range w.issued {
			if fl.ctl.where() != "" {
				any = true
				fl.ctl.unpark()
			}
		}
		synctest.Wait()
		if !any {
			return
		}
	}
}

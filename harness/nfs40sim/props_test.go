package nfs40sim

import (
	"fmt"
	"runtime/debug"
	"sort"
	"strings"
	"testing"
	"testing/synctest"

	"pgregory.net/rapid"

	"verif/harness/internal/simkit"
)

const commonRule = "One case = a fresh real NFSv4.0 program (NewNFS40Program + OpenedFilesPool + NFS handle allocator + InMemoryPrepopulatedDirectory with pool-backed files wrapped by counting leaves) inside testing/synctest with a simulated clock and a counter-based random number generator. 1-3 protocol-following client simulators (client IDs, seqids, state IDs, file handles learned from replies only) issue generated COMPOUNDs: SETCLIENTID(+new verifier), SETCLIENTID_CONFIRM, RENEW, OPEN (CLAIM_NULL; nocreate/UNCHECKED/GUARDED/EXCLUSIVE; read/write/both; deny), OPEN_CONFIRM, OPEN_DOWNGRADE, CLOSE, LOCK (new / existing lock-owner), LOCKT, LOCKU, RELEASE_LOCKOWNER, READ/WRITE/SETATTR(size) with open, lock and special state IDs, REMOVE, LOOKUP, PUTFH; clock advances (also exactly at / 1ns past the lease), vanishing clients, drawn deviations (old/future/foreign/other-file/dead/wrong-prefix/special state IDs, wrong or missing file handle, old/future seqids, stale/foreign/unconfirmed client IDs, bad ranges), retransmissions (identical, other operation, other state ID; also of a request that is still parked, any number of identical ones waiting behind it), and requests parked inside VirtualOpenChild (before/after the directory) or leaf I/O while other requests, lease expiry, re-registration and duplicates arrive. TIME AROUND A PARKED OPEN (window.go): a generated 'window' action parks an OPEN (preferably of an open-owner that is unconfirmed or without open files), lets drawn time pass while it is parked (none / less than a lease / exactly a lease / a lease + 1ns / more), issues 0-2 further requests of the same open-owner that wait behind it (identical retransmissions, the owner's next OPEN / CLOSE / OPEN_DOWNGRADE / OPEN_CONFIRM with the following seqids), holds drawn ones of them - by the harness's clock, inside the Now() call at the top of enter() - when the OPEN completes and they wake up, then lets drawn time pass again (same classes; the client renewing in between with RENEW or a request of another open-owner, staying silent, or re-registering), lets the held waiters go in a drawn order, and sends OPEN_CONFIRM; the generic release action picks held waiters too; waiters that are not identical retransmissions of one request are always held, so the order of service is the harness's. The model restarts a request that waited from its lookups and forgets unused open-owners (unconfirmed or without open files, no transaction in progress) a lease after their last transaction completed, as nfs40_program.go documents. All clients use the same open-owner / lock-owner byte strings; every owner's seqid sequence starts at a drawn value (0, 1, 2, or 2^32-3..2^32-1, so that it wraps around within the case). STATE ID SEQIDS AT THE WRAP-AROUND (preset.go): a generated 'preset_stateid_seqid' step picks a live, confirmed open state ID or a lock state ID of a client simulator with nothing in flight and places its seqid at 2^32-3..2^32-1 through the hook VerifSetNFS40StateIDSeqID (what 2^32 well-formed requests would have done to the counter; client simulator and model are told); the following steps prefer clients, owners and state IDs next to the wrap-around (OPEN of the same file, OPEN_DOWNGRADE, LOCK with an existing lock-owner, LOCKU, CLOSE, I/O, old/future seqids drawn on both sides of the wrap), and the operation that takes a state ID from 2^32-1 to 1 is retransmitted at once with 65% (labels stateid_seqid_preset, stateid_seqid_wrapped:<op>, replay_of_wrapping_operation:<op>); the model follows nextSeqID as documented (successor of 2^32-1 is 1) for the state ID in replies, the one the next request must carry (older => NFS4ERR_OLD_STATEID, newer => NFS4ERR_BAD_STATEID) and the replay check (state ID of the cached reply is the successor of the request's). OPEN and READ/WRITE/SETATTR may carry a one-shot fault of the file system below the server (VirtualOpenChild fails before or after the real directory acted, file allocator fails, VirtualOpenSelf fails, leaf I/O fails). An oracle of any of the properties C14/C18/C19/C20 is fatal in every test function (the message names its property). A reference model (RFC 7530 state machine + per-byte lock table, fed only by requests, replies and the clock) predicts every reply status and the blocking behaviour. "

func labelsOf(w *world) []string {
	set := map[string]bool{}
	for k := range w.labels {
		set[k] = true
	}
	for k := range w.m.ev {
		set[k] = true
	}
	var l []string
	for k := range set {
		l = append(l, k)
	}
	sort.Strings(l)
	return l
}

// runCase executes one generated case inside a synctest bubble.
func runCase(t *testing.T, rt *rapid.T, rec *simkit.Recorder, prof *profile) {
	nClients := rapid.IntRange(1, 3).Draw(rt, "clients")
	var w *world
	var failure string
	var rapidPanic any
	func() {
		defer func() {
			if r := recover(); r != nil {
				if strings.Contains(fmt.Sprint(r), "deadlock: main bubble goroutine has exited") {
					// A request of the case never returned although
					// everything the harness parked was released.
					if failure == "" {
						failure = fmt.Sprintf("[%s] liveness: %v", prof.property, r)
					}
					return
				}
				panic(r)
			}
		}()
		runBubble(t, func() {
			defer func() {
				r := recover()
				if w != nil {
					w.unparkAll()
				}
				if r == nil {
					return
				}
				switch v := r.(type) {
				case violation:
					// Every oracle is sound in every profile, so a
					// violation of any class is a true violation of the
					// tree and fatal in whichever check meets it (the
					// profiles differ in what they make likely, and a
					// defect may only be reachable under another
					// property's profile). The class is reported.
					failure = fmt.Sprintf("[%s] %s", v.class, v.msg)
					if v.class != prof.property {
						failure += fmt.Sprintf("\n(an oracle of property %s, met while running the %s profile of %s)", v.class, prof.name, prof.property)
					}
				default:
					if strings.Contains(fmt.Sprintf("%T", r), "rapid.") {
						rapidPanic = r
					} else {
						failure = fmt.Sprintf("panic in the code under test or the harness: %v\n%s", r, debug.Stack())
					}
				}
			}()
			w = newWorld(rt, prof, nClients)
			w.warmup()
			n := rapid.IntRange(prof.minSteps, prof.maxSteps).Draw(rt, "steps")
			for i := 0; i < n; i++ {
				w.step()
			}
			w.evMain = map[string]int{}
			for k, v := range w.m.ev {
				w.evMain[k] = v
			}
			w.labMain = map[string]int{}
			for k, v := range w.labels {
				w.labMain[k] = v
			}
			w.finish()
		})
	}()
	if rapidPanic != nil {
		panic(rapidPanic)
	}
	if failure != "" {
		rt.Fatalf("%s\nclients=%d profile=%s\nscript:\n%s", failure, nClients, prof.name, w.script1())
	}
	for d := range w.diags {
		rec.Note(d)
		rec.Label("diagnostic")
	}
	rec.Case(w.script, prof.nontrivial(w.evMain, w.labMain), labelsOf(w)...)
}

// warmup registers the clients (and for lock-heavy profiles opens a
// file) with ordinary generated-looking steps, so that short cases are
// not spent on registration only.
func (w *world) warmup() {
	for _, c := range w.clients {
		if !w.pct(w.prof.warmPct, "warm") {
			continue
		}
		w.noteAndIssue(c, &opSpec{Kind: kSetclientid, LongID: c.longID, Verifier: c.verifier})
		w.noteAndIssue(c, &opSpec{Kind: kSetclientidConfirm, ClientID: c.cid, Confirm: c.confirm})
		for k := 0; k < 2 && w.prof.warmOpen && c.confirmed != 0; k++ {
			if k == 1 && !w.pct(40, "warmSecondOwner") {
				break
			}
			o := c.owners[k]
			w.noteAndIssue(c, &opSpec{Kind: kOpen, ClientID: c.confirmed, FH: "root", Owner: o.key, Seq: o.nxt(), Name: "a", Access: 3, How: "unchecked"})
			if len(o.opens) == 1 {
				w.noteAndIssue(c, &opSpec{Kind: kOpenConfirm, FH: o.opens[0].fh, Owner: o.key, Seq: o.nxt(), Stateid: o.opens[0].sid})
			}
		}
	}
}

func (w *world) noteAndIssue(c *cClient, op *opSpec) {
	w.noteSent(c, op)
	w.issue(c, op)
}

func rep(dst []string, name string, n int) []string {
	for i := 0; i < n; i++ {
		dst = append(dst, name)
	}
	return dst
}

func weights(m map[string]int) []string {
	keys := make([]string, 0, len(m))
	for k := range m {
		keys = append(keys, k)
	}
	sort.Strings(keys)
	// Index 0 is where shrinking converges: make it a harmless probe.
	l := []string{kLookup}
	// rapid's integers lean towards small values, so the front of the
	// list is drawn more often than its share. Deal the actions out
	// round-robin (one of each kind, then one of each kind that has
	// weight left, ...) so that the front holds a mix of all kinds
	// instead of the alphabetically first ones.
	left := map[string]int{}
	for k, v := range m {
		left[k] = v
	}
	for more := true; more; {
		more = false
		for _, k := range keys {
			if left[k] > 0 {
				l = append(l, k)
				left[k]--
				more = true
			}
		}
	}
	return l
}

var profC18 = &profile{
	property: "C18", name: "accounting",
	ops: weights(map[string]int{
		kOpen: 9, kOpenConfirm: 5, kOpenDowngrade: 5, kClose: 3, kLock: 9, kLocku: 1, kLockt: 1, kReleaseLockowner: 2,
		kRead: 3, kWrite: 3, kSetattr: 1, kRemove: 2, kLookup: 1, kPutfh: 3,
		kSetclientid: 3, kSetclientidConfirm: 4, kRenew: 1, "advance": 4, "vanish": 1, "release": 6, "retx": 1, "window": 4, kPreset: 2,
	}),
	minSteps: 30, maxSteps: 100, devPct: 10, parkPct: 15, warmPct: 90, confirmPct: 85, sharedLO: true, faultPct: 12, gatePct: 40,
	nontrivial: func(ev, labels map[string]int) bool {
		return (ev["open_upgrade"] > 0 || ev["downgrade"] > 0) && ev["lock_owner_cloned_share"] > 0 && (ev["reclaim_by_expiry"] > 0 || ev["reclaim_by_reregistration"] > 0)
	},
}

var profC19 = &profile{
	property: "C19", name: "retransmission",
	ops: weights(map[string]int{
		kOpen: 8, kOpenConfirm: 6, kOpenDowngrade: 2, kClose: 5, kLock: 6, kLocku: 3, kReleaseLockowner: 1,
		kRead: 1, kWrite: 1, kRemove: 1, kPutfh: 1,
		kSetclientid: 1, kSetclientidConfirm: 2, kRenew: 1, "advance": 2, "release": 14,
		"retx": 10, "retx_diff_op": 3, "retx_diff_sid": 3, "window": 4, kPreset: 4,
	}),
	minSteps: 15, maxSteps: 60, devPct: 10, parkPct: 30, warmPct: 90, confirmPct: 85, sharedLO: true, inflightRetxPct: 70, dupParkedPct: 35, gatePct: 30,
	nontrivial: func(ev, labels map[string]int) bool {
		return (ev["replay_ok_open"] > 0 || ev["replay_ok_close"] > 0 || ev["replay_ok_lock"] > 0) && labels["inflight_duplicate_got_original_reply"] > 0
	},
}

var profC20 = &profile{
	property: "C20", name: "locks",
	ops: weights(map[string]int{
		kOpen: 5, kOpenConfirm: 4, kClose: 2, kLock: 26, kLocku: 8, kLockt: 6, kReleaseLockowner: 3,
		kRead: 1, kWrite: 1, kOpenDowngrade: 1,
		kSetclientid: 1, kSetclientidConfirm: 1, kRenew: 1, "advance": 2, "release": 2, "retx": 1, "window": 1, kPreset: 2,
	}),
	minSteps: 20, maxSteps: 70, devPct: 8, parkPct: 5, gatePct: 30, warmPct: 95, warmOpen: true, confirmPct: 95, sharedLO: true, scanLocks: true,
	nontrivial: func(ev, labels map[string]int) bool {
		return ev["two_lock_owners_hold"] > 0 && ev["lock_split_or_merge"] > 0 && ev["lock_to_max_offset"] > 0
	},
}

// profC14 is the general mix with many injected file system faults,
// rejected requests and parked requests: the paths on which a lock is
// most easily left behind.
var profC14 = &profile{
	property: "C14", name: "locks_released",
	ops: weights(map[string]int{
		kOpen: 10, kOpenConfirm: 5, kOpenDowngrade: 3, kClose: 3, kLock: 8, kLocku: 2, kLockt: 4, kReleaseLockowner: 2,
		kRead: 4, kWrite: 4, kSetattr: 3, kRemove: 2, kLookup: 1, kPutfh: 2,
		kSetclientid: 2, kSetclientidConfirm: 3, kRenew: 1, "advance": 3, "vanish": 1, "release": 6, "retx": 3, "retx_diff_op": 1, "retx_diff_sid": 1, "window": 3, kPreset: 1,
	}),
	minSteps: 20, maxSteps: 70, devPct: 20, parkPct: 20, gatePct: 40, warmPct: 90, confirmPct: 85, sharedLO: true, faultPct: 55, inflightRetxPct: 50, dupParkedPct: 10,
	nontrivial: func(ev, labels map[string]int) bool {
		faults := 0
		for k, v := range ev {
			if strings.HasPrefix(k, "fault_fired_") {
				faults += v
			}
		}
		return faults > 0 && labels["locks_probed_while_requests_parked"] > 0
	},
}

func TestC14NFS40LocksReleased(t *testing.T) {
	rec := simkit.NewRecorder(t, "C14", "nfs40_locks_released", commonRule+"Additionally OPEN and READ/WRITE/SETATTR requests carry generated one-shot faults of the file system below the server (VirtualOpenChild fails before / after the real directory acted, the file allocator fails, VirtualOpenSelf fails, leaf I/O fails; statuses EIO/EACCES/EROFS/ENXIO), 35% of them in this profile, 20% altered (rejected) requests, 20% parked. ORACLE (C14): after every request, release and clock step - with all other requests returned or parked inside the fakes, i.e. outside every lock of the code under test - TryLock probes find the NFSv4.0 program lock, the opened-files pool lock, the lock of every opened file's lock table, the NFS handle pool lock, the root directory lock and the lock of every pool-backed file free; every request the model expects to return does return (a leaked lock blocks the next request, which the model flags as 'blocked but expected to complete'; the bubble must drain); plus all C18/C19/C20 oracles (reply statuses, open accounting, record counts), so that a failed call is also known to leave the state usable. NON-TRIVIAL: at least one injected fault fired AND the locks were probed while another request was parked. Distinct by script hash.")
	rapid.Check(t, func(rt *rapid.T) { runCase(t, rt, rec, profC14) })
}

func TestC18NFS40OpenAccounting(t *testing.T) {
	rec := simkit.NewRecorder(t, "C18", "nfs40_accounting", commonRule+"ORACLE (C18): per counting leaf and share bit closes <= opens at all times and no VirtualRead/VirtualWrite while the leaf's count for that bit is 0; at every quiescence without requests in flight the outstanding opens per leaf/bit EQUAL the holders the replies imply (open state of every open-owner incl. upgrades/downgrades, lock-owner clones, in-flight I/O), with requests in flight they are at least that; they drop after CLOSE (+RELEASE_LOCKOWNER), confirmed re-registration, lease expiry followed by any call; an unlinked open file stays reachable by PUTFH until closed (and the CLOSE reply can no longer be retransmitted), then NFS4ERR_STALE; state IDs used with another file, client, or an old/future seqid get BAD_STATEID/OLD_STATEID/STALE_STATEID and (checked by snapshots of leaf counters, directory change ID, server record counts, opened-files pool) no side effects; VerifStateCounts == the model's record counts at every quiescence, program/pool/handle-pool/directory locks free; after all leases expired plus one call every count is zero and every unlinked file is STALE; a request that fails because the file system below fails (8 fault points) leaves no open behind, releases the share it borrowed, leaves record counts as the model says, and its error reply is cached for retransmissions; the file system logs exactly the injected allocator failures. NON-TRIVIAL: an upgrade or downgrade happened AND a lock-owner cloned a share AND open state was reclaimed by lease expiry or confirmed re-registration. Distinct by script hash.")
	rapid.Check(t, func(rt *rapid.T) { runCase(t, rt, rec, profC18) })
}

func TestC19NFS40Retransmission(t *testing.T) {
	rec := simkit.NewRecorder(t, "C19", "nfs40_retransmission", commonRule+"ORACLE (C19): a retransmission (same owner, same seqid, same operation type and - for CLOSE/LOCK(existing owner)/LOCKU/OPEN_CONFIRM/OPEN_DOWNGRADE - same state ID) returns a result that is XDR-byte-equal (go-xdr WriteTo) to the first reply of that operation, and leaf counters, directory change ID, VerifStateCounts and the opened-files pool do not move; a retransmission arriving while the original is parked blocks, then completes with the original's reply - also the second, third, ... identical duplicate waiting behind the same original (the bubble must drain); seqids wrap from 2^32-1 to 1 (0 is then out of order), a first seqid of 0 is accepted; a seqid that is neither the last nor its successor => NFS4ERR_BAD_SEQID without side effects; the last seqid with another operation type or another state ID => NFS4ERR_BAD_SEQID, never the cached reply. Excluded (counted): two OPENs under one seqid with different arguments as 'different content' (RFC 7530 9.1.9: same request). A waiter behind an in-progress transaction whose content differs from the waiters that wake up on their own is held at the clock reading of enter() and let go by the harness (counted), because the service order would otherwise be up to the scheduler. NON-TRIVIAL: a replay of a successful OPEN, CLOSE or LOCK returned the cached reply AND a duplicate that arrived while its original was in flight completed with the original's reply (both before the final drain). Distinct by script hash.")
	rapid.Check(t, func(rt *rapid.T) { runCase(t, rt, rec, profC19) })
}

// profC19Locks is the retransmission mix shifted towards lock-owners:
// several confirmed opens per client, many LOCK requests that introduce
// a lock-owner to a further open file, and more altered seqids.
var profC19Locks = &profile{
	property: "C19", name: "lock_owner_seqids",
	ops: weights(map[string]int{
		kOpen: 7, kOpenConfirm: 5, kClose: 2, kLock: 22, kLocku: 5, kReleaseLockowner: 1,
		kSetclientid: 1, kSetclientidConfirm: 1, kRenew: 1, "advance": 1, "release": 4,
		"retx": 8, "retx_diff_op": 2, "retx_diff_sid": 2, kPreset: 1,
	}),
	minSteps: 20, maxSteps: 60, devPct: 22, parkPct: 8, warmPct: 95, warmOpen: true, confirmPct: 95, sharedLO: true, inflightRetxPct: 40, dupParkedPct: 10, gatePct: 20,
	nontrivial: func(ev, labels map[string]int) bool {
		return ev["out_of_order_lock_seqid_with_new_lock_owner_flag"] > 0 || ev["lock_owner_replay_through_new_open"] > 0
	},
}

func TestC19NFS40LockOwnerSeqids(t *testing.T) {
	rec := simkit.NewRecorder(t, "C19", "nfs40_lock_owner_seqids", commonRule+"PROFILE: lock-owner heavy (LOCK 22 of 63 weights, 22% altered requests, clients warmed up with confirmed opens): lock-owners are introduced to a second and third open file with LOCK(new_lock_owner=true), which RFC 7530 9.1.7 subjects to the lock-owner's seqid ordering although the open-owner's seqid is in order. ORACLE (C19): as TestC19NFS40Retransmission; in particular such a LOCK whose lock seqid is neither the lock-owner's last one nor its successor => NFS4ERR_BAD_SEQID with no lock taken (read back by the later LOCK/LOCKT replies and the final accounting), the lock-owner's next in-order request still accepted and its last reply still replayable; one with the last lock seqid => the cached LOCK reply (or NFS4ERR_BAD_SEQID after a LOCKU). NON-TRIVIAL: a LOCK(new_lock_owner=true) for a lock-owner that already exists carried an out-of-order lock seqid, or replayed the lock-owner's last LOCK through another open. Distinct by script hash.")
	rapid.Check(t, func(rt *rapid.T) { runCase(t, rt, rec, profC19Locks) })
}

func TestC20NFS40ByteRangeLocks(t *testing.T) {
	rec := simkit.NewRecorder(t, "C20", "nfs40_locks", commonRule+"ORACLE (C20b): per-file per-byte lock table keyed by (client registration, lock-owner bytes) over a 33-unit compressed offset universe (bytes 0..15, gap, 16 highest offsets, ranges to 2^64-1 and length all-ones): LOCK granted <=> the model has no conflict; a DENIED reply names an owner/type/range that the model says is really held, overlaps and conflicts; LOCKT DENIED <=> the same LOCK would be denied (own locks never conflict, unknown owners conflict with everyone, unopened files never conflict); LOCKU frees exactly the bytes; CLOSE / RELEASE_LOCKOWNER / lease expiry / re-registration free exactly that open's / owner's / client's bytes; RELEASE_LOCKOWNER => NFS4ERR_LOCKS_HELD <=> the owner still holds bytes; lock state IDs and seqids as predicted; equal owner bytes under different clients are different owners; offset+length = 2^64-1 is the largest finite range, 2^64 and beyond, length 0 and offset 2^64-1 with length 1 => NFS4ERR_INVAL, length all-ones = to end of file. TABLE READ-BACK: after every CLOSE, LOCKU, RELEASE_LOCKOWNER, SETCLIENTID_CONFIRM, lease expiry, and before and after the final expiry, the lock table of every file that ever carried a lock is read back with LOCKT for every unit by an observer owner of a client of its own (WRITE and READ) and by every owner that holds bytes (WRITE), maximal runs the model expects to be free of foreign locks as one range; every reply is compared with the per-byte model (status; a DENIED reply through the same check as above), so a lock that was not released, or one released too many, is seen at once. NON-TRIVIAL: two owners held locks on one file at the same time AND a split or merge of an owner's ranges happened AND a range ended at the maximum offset. Distinct by script hash.")
	rapid.Check(t, func(rt *rapid.T) { runCase(t, rt, rec, profC20) })
}

func runBubble(t *testing.T, body func()) {
	synctest.Test(t, func(st *testing.T) { body() })
}

package nfs40sim

import (
	"encoding/hex"
	"math"

	nfsv4srv "github.com/buildbarn/bb-remote-execution/pkg/filesystem/virtual/nfsv4"
	nfsv4 "github.com/buildbarn/go-xdr/pkg/protocols/nfsv4"
)

// State ID seqids next to their wrap-around.
//
// The seqid of an open or lock state ID starts at 1 and is advanced by
// every OPEN of the same file by the same open-owner, OPEN_CONFIRM,
// OPEN_DOWNGRADE, CLOSE, LOCK and LOCKU. nextSeqID in nfs40_program.go
// documents what follows 2^32-1: 1, not 0 (RFC 7530 section 9.1.3). A
// client only gets there after 2^32 state-changing operations on one
// state ID, so no case would ever reach it through requests. The hook
// VerifSetNFS40StateIDSeqID (build tag verif) places the counter of one
// state ID where that many well-formed requests would have taken it and
// does nothing else.
//
// "preset_stateid_seqid" is a generated step: it picks a live open or
// lock state ID of a client simulator that has nothing in flight, puts
// its seqid at 2^32-3 .. 2^32-1 through the hook, and tells the client
// simulator (which stands for a client that did send all those requests)
// and the reference model. The ordinary requests of the following steps
// (OPEN of the same file, OPEN_DOWNGRADE, LOCK with an existing
// lock-owner, LOCKU, CLOSE, I/O, altered requests with old and future
// seqids) and their retransmissions then run across the wrap-around; the
// generator prefers state IDs that are close to it and aims a
// retransmission at the operation that wrapped one. The model needs no
// special case: it computes successors with nextSeq (proto.go) wherever
// the code documents nextSeqID - the state ID in a reply, the state ID the
// next request has to carry, and 'the state ID in the cached reply is the
// successor of the one in the request' of the replay check - and compares
// a request's seqid with the server's the way nfs40CompareStateSeqID
// documents (older => NFS4ERR_OLD_STATEID, newer => NFS4ERR_BAD_STATEID).

const kPreset = "preset_stateid_seqid"

// presetValues are the seqids a state ID is placed at: the next one,
// two or three state-changing operations on it wrap it around.
var presetValues = []uint32{math.MaxUint32 - 2, math.MaxUint32 - 1, math.MaxUint32, math.MaxUint32}

// presetTarget names one state ID the way the client knows it: an open
// of the client, or (lok != "") the lock state a lock-owner has on it.
type presetTarget struct {
	c   *cClient
	co  *cOpen
	lok string
}

func (t presetTarget) sid() sid {
	if t.lok != "" {
		return t.co.locks[t.lok]
	}
	return t.co.sid
}

// idle reports whether neither the client simulator nor anybody else
// has a request in flight that involves the client registration that
// owns the open-owner: then no request is between its lookups and its
// reply with the state ID in hand.
func (w *world) idle(c *cClient, oo *mOO) bool {
	for _, fl := range w.flights {
		if fl.client == c {
			return false
		}
	}
	return !oo.txn && oo.conf.hold == 0
}

// presetTargets lists the live open and lock state IDs that may be
// preset now: known to their client with the seqid the server has (the
// client is up to date), confirmed, still open, nothing in flight.
func (w *world) presetTargets() []presetTarget {
	var out []presetTarget
	for _, c := range w.clients {
		if c.vanished {
			continue
		}
		for _, co := range c.allOpens() {
			of := w.m.ofByOth[co.sid.Other]
			if of == nil || of.finalized || of.access == 0 || !w.idle(c, of.oo) {
				continue
			}
			if !of.oo.confirmed || co.unconf {
				// Soundness: the state ID of an open that awaits
				// OPEN_CONFIRM is always at seqid 1 (a further OPEN of an
				// unconfirmed open-owner starts the owner over), so no
				// sequence of requests puts it anywhere else.
				w.label("excluded_preset_of_unconfirmed_open")
				continue
			}
			if of.seq == co.sid.Seq {
				out = append(out, presetTarget{c: c, co: co})
			}
			for _, lo := range c.lockOwner {
				s, have := co.locks[lo.key]
				if !have {
					continue
				}
				if lf := w.m.lfByOth[s.Other]; lf != nil && !lf.dead && lf.of == of && lf.seq == s.Seq {
					out = append(out, presetTarget{c: c, co: co, lok: lo.key})
				}
			}
		}
	}
	return out
}

// presetAction is the generated step.
func (w *world) presetAction() bool {
	all := w.presetTargets()
	var fresh []presetTarget
	for _, t := range all {
		if _, done := w.presetAt[t.sid().Other]; !done {
			fresh = append(fresh, t)
		}
	}
	if len(fresh) > 0 {
		all = fresh
	}
	if len(all) == 0 {
		return false
	}
	// Lock state IDs exist less often than open state IDs; take one
	// half of the time when there is one.
	var locks []presetTarget
	for _, t := range all {
		if t.lok != "" {
			locks = append(locks, t)
		}
	}
	if len(locks) > 0 && w.pct(50, "presetLockStateID") {
		all = locks
	}
	w.presetStateID(pick(w, "presetTarget", all), pick(w, "presetSeqid", presetValues))
	return true
}

// presetStateID performs the step: hook, client, model, script.
func (w *world) presetStateID(t presetTarget, v uint32) {
	old := t.sid()
	kind := "open"
	if t.lok != "" {
		kind = "lock"
	}
	w.stepNo++
	st := &opSpec{N: w.stepNo, Kind: kPreset, Client: t.c.idx, Stateid: old, Size: uint64(v), LockOwner: t.lok, Note: kind}
	w.script = append(w.script, st)

	var other [nfsv4.NFS4_OTHER_SIZE]byte
	b, err := hex.DecodeString(old.Other)
	if err != nil || len(b) != len(other) {
		panic("harness: malformed state ID in the client's records: " + old.Other)
	}
	copy(other[:], b)
	if !nfsv4srv.VerifSetNFS40StateIDSeqID(w.program, other, v) {
		w.fail("C18", "step %d %s: the replies imply that %s state ID %s exists and that no request of its client is in flight, but the server does not have it, has a transaction of its open-owner in progress, or its lock is held (VerifSetNFS40StateIDSeqID refused)", st.N, kPreset, kind, old)
	}
	if !w.m.presetSid(old.Other, v) {
		panic("harness: the model lost the state ID that is being preset")
	}
	now := sid{Seq: v, Other: old.Other}
	if t.lok != "" {
		t.co.locks[t.lok] = now
	} else {
		t.co.sid = now
	}
	if w.presetAt == nil {
		w.presetAt = map[string]int{}
	}
	w.presetAt[old.Other] = st.N
	st.Out = now.String()
	w.label("stateid_seqid_preset")
	w.label("stateid_seqid_preset:" + kind)
	w.checkQuiescent()
}

func (m *model) presetSid(other string, v uint32) bool {
	if of := m.ofByOth[other]; of != nil {
		of.seq = v
		return true
	}
	if lf := m.lfByOth[other]; lf != nil {
		lf.seq = v
		return true
	}
	return false
}

// bumpSid advances the seqid of a state ID the way nextSeqID documents
// (the successor of 2^32-1 is 1) and labels the wrap-around.
func (m *model) bumpSid(seq uint32, op string) (next uint32, wrapped bool) {
	if seq == math.MaxUint32 {
		m.mark("stateid_seqid_wrapped")
		m.mark("stateid_seqid_wrapped:" + op)
		return 1, true
	}
	return nextSeq(seq), false
}

// markSidMismatch labels rejections whose direction is only right if the
// comparison is the modular one nfs40CompareStateSeqID documents.
func (m *model) markSidMismatch(client, server uint32, st nfsv4.Nfsstat4) {
	switch {
	case st == nfsv4.NFS4ERR_OLD_STATEID && client > server:
		m.mark("old_stateid_from_before_the_wrap")
	case st == nfsv4.NFS4ERR_BAD_STATEID && client < server:
		m.mark("future_stateid_from_beyond_the_wrap")
	}
}

// hot: the state ID was preset and is within a few operations of its
// wrap-around, on either side.
func (w *world) hot(s sid) bool {
	if _, was := w.presetAt[s.Other]; !was {
		return false
	}
	return s.Seq >= math.MaxUint32-3 || s.Seq <= 2
}

func (w *world) hotOpen(co *cOpen) bool {
	if w.hot(co.sid) {
		return true
	}
	for _, s := range co.locks {
		if w.hot(s) {
			return true
		}
	}
	return false
}

func (w *world) hotClient(c *cClient) bool {
	if len(w.presetAt) == 0 {
		return false
	}
	for _, co := range c.allOpens() {
		if w.hotOpen(co) {
			return true
		}
	}
	return false
}

func (w *world) hotLock(c *cClient) bool {
	if len(w.presetAt) == 0 {
		return false
	}
	for _, co := range c.allOpens() {
		for _, s := range co.locks {
			if w.hot(s) {
				return true
			}
		}
	}
	return false
}

// hotActions are the requests that advance, or are checked against, the
// seqid of the kinds of state ID the client has next to the wrap-around.
func (w *world) hotActions(c *cClient) []string {
	var l []string
	if w.hotLock(c) {
		l = append(l, kLocku, kLock, kLocku, kLock)
	}
	for _, co := range c.allOpens() {
		if w.hot(co.sid) {
			l = append(l, kOpenDowngrade, kOpen, kClose, kOpenDowngrade)
			break
		}
	}
	return append(l, "retx", kWrite, kRead, "retx_diff_sid")
}

func contains(l []string, x string) bool {
	for _, y := range l {
		if x == y {
			return true
		}
	}
	return false
}

func prevSeq(s uint32) uint32 {
	if s <= 1 {
		return math.MaxUint32
	}
	return s - 1
}

// wraps is the number of state ID wrap-arounds the model has seen.
func (w *world) wraps() int { return w.m.ev["stateid_seqid_wrapped"] }

// retxIfWrapped: the request that was just served (issued, or released
// from its park point) wrapped a state ID around. Usually the client
// "loses" the reply and sends the request again, before anything else.
func (w *world) retxIfWrapped(c *cClient, op *opSpec, wrapsBefore int) {
	if w.rt == nil || w.wraps() == wrapsBefore || op.Retx != 0 || op.Note != "" || op.Out == "" || len(op.Out) >= 7 && op.Out[:7] == "blocked" {
		return
	}
	if !w.pct(65, "retransmitWrappingOperation") {
		return
	}
	d := *op
	d.Out, d.Park, d.N = "", "", 0
	d.Fault, d.FaultSt = "", ""
	d.Gate = false
	d.Retx, d.Note = op.N, "retransmission"
	w.gateIfWaiting(&d)
	w.label("retransmission_aimed_at_wrapping_operation")
	w.issue(c, &d)
}

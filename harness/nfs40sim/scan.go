package nfs40sim

import (
	"context"
	"fmt"
	"sort"
	"strings"

	nfsv4 "github.com/buildbarn/go-xdr/pkg/protocols/nfsv4"
)

// Reading back the server's byte-range lock tables (C20: "unlocking or
// closing releases precisely the owner's bytes in the given range and
// nothing else").
//
// LOCK and LOCKT requests of the generated history only tell something
// about the bytes they happen to touch. After every request that may
// release locks (CLOSE, LOCKU, RELEASE_LOCKOWNER, SETCLIENTID_CONFIRM, a
// clock step that makes a lease expire) the simulator therefore reads
// the whole table of every file that ever carried a lock: an observer
// (a lock-owner of a client of its own that never locks anything, so
// every lock conflicts with it) sends LOCKT for every unit of the offset
// universe and both lock types, and every lock-owner that holds bytes on
// the file according to the model sends a WRITE LOCKT for every unit
// (its own bytes must not conflict, everybody else's must); maximal runs
// of units that the model expects to be free of foreign locks are probed
// by one WRITE LOCKT each, which is just as exact. Each reply
// is compared with the per-byte model through the ordinary LOCKT
// prediction (status, and for NFS4ERR_DENIED the named owner, type and
// range through checkDenied).
//
// The LOCKTs are real COMPOUNDs, issued synchronously (LOCKT never
// blocks) and run through the model like every other request (they
// enter the server, so they reclaim expired state and renew the lease
// of the client they name); they are recorded as one script step.

const observerOwner = "observer"

// aliveNow reports whether the client ID is confirmed and would survive
// the reclamation that the next call entering the server performs.
func (m *model) aliveNow(shortID uint64) bool {
	c := m.confirmedByShort(shortID)
	if c == nil {
		return false
	}
	return c.hold > 0 || c.lastSeen+m.lease >= m.now
}

// ensureObserver registers the observer client, again if its lease ran out.
func (w *world) ensureObserver() bool {
	if w.observer == nil {
		w.observer = &cClient{idx: len(w.clients), longID: "observer-client", verifier: 7700}
	}
	c := w.observer
	if c.confirmed != 0 && w.m.aliveNow(c.confirmed) {
		return true
	}
	w.label("observer_registered")
	c.verifier++
	w.noteAndIssue(c, &opSpec{Kind: kSetclientid, LongID: c.longID, Verifier: c.verifier, Note: "observer"})
	w.noteAndIssue(c, &opSpec{Kind: kSetclientidConfirm, ClientID: c.cid, Confirm: c.confirm, Note: "observer"})
	return c.confirmed != 0 && w.m.aliveNow(c.confirmed)
}

type perspective struct {
	cid   uint64
	owner string
	key   string // model lock key, "" for the observer
}

// holders lists the lock-owners that hold bytes of the leaf in the model.
func (m *model) holders(l *mLeaf) []perspective {
	var out []perspective
	for _, c := range m.confs {
		for name := range c.los {
			k := lockKey(c, name)
			if m.ownerHolds(l, k) {
				out = append(out, perspective{cid: c.shortID, owner: name, key: k})
			}
		}
	}
	sort.Slice(out, func(i, j int) bool { return out[i].key < out[j].key })
	return out
}

// renderTable draws the model's lock table of a leaf: one row per owner,
// one character per unit (. free, s shared, X exclusive).
func (m *model) renderTable(l *mLeaf) string {
	keys := make([]string, 0, len(l.locks))
	for k := range l.locks {
		keys = append(keys, k)
	}
	sort.Strings(keys)
	var b strings.Builder
	for _, k := range keys {
		fmt.Fprintf(&b, "%s=", k)
		for _, v := range l.locks[k] {
			b.WriteByte(".sX"[v])
		}
		b.WriteByte(' ')
	}
	if b.Len() == 0 {
		return "<no locks>"
	}
	return strings.TrimSpace(b.String())
}

// scanLocks reads the lock tables back. all: every file with a known
// handle, otherwise only files that carried a lock at some point.
func (w *world) scanLocks(reason string, all bool) {
	if !w.prof.scanLocks {
		return
	}
	var leaves []*mLeaf
	for _, l := range w.m.leaves {
		if l.fh == "" || !(all || l.everLocked) {
			continue
		}
		if w.m.resolveFH(l.fh).kind != "leaf" {
			continue
		}
		leaves = append(leaves, l)
	}
	if len(leaves) == 0 {
		return
	}
	if !w.ensureObserver() {
		w.label("lock_scan_skipped_observer_not_registered")
		return
	}
	w.stepNo++
	st := &opSpec{N: w.stepNo, Kind: "lock_scan", Client: w.observer.idx, Note: reason}
	w.script = append(w.script, st)
	w.label("lock_scan")
	w.label("lock_scan_" + reason)
	var out []string
	probes := 0
	for _, l := range leaves {
		// The observer first: its first LOCKT enters the server and
		// makes it reclaim whatever has expired.
		persp := []perspective{{cid: w.observer.confirmed, owner: observerOwner}}
		for pi := 0; pi < len(persp); pi++ {
			p := persp[pi]
			table := w.m.renderTable(l)
			// Units on which the model expects this perspective to meet
			// no lock of anybody else are probed run by run: one WRITE
			// LOCKT over a maximal run succeeds exactly if every unit of
			// it is free of foreign locks. All other units are probed one
			// by one (the observer with both lock types, which tells
			// shared from exclusive locks).
			foreign := func(u int) bool {
				for k, t := range l.locks {
					if k != p.key && t[u] != 0 {
						return true
					}
				}
				return false
			}
			for u := 0; u < nUnits; {
				end := u + 1
				types := []int32{int32(nfsv4.WRITE_LT)}
				if foreign(u) {
					if pi == 0 {
						types = append(types, int32(nfsv4.READ_LT))
					}
				} else {
					for end < nUnits && !foreign(end) {
						end++
					}
				}
				length := cut(end) - cut(u)
				for _, lt := range types {
					op := &opSpec{N: st.N, Kind: kLockt, Client: w.observer.idx, FH: l.fh, LockCID: p.cid, LockOwner: p.owner, LockType: lt, Offset: cut(u), Length: length, Note: "lock_scan"}
					w.probeLockt(op, l, p, u, end, table)
					probes++
				}
				u = end
			}
			if pi == 0 {
				out = append(out, fmt.Sprintf("leaf#%d %s", l.idx, table))
				persp = append(persp, w.m.holders(l)...)
				if len(persp) > 1 {
					w.label("lock_scan_with_held_bytes")
				}
				if len(persp) > 2 {
					w.label("lock_scan_with_two_holders")
				}
			}
		}
	}
	w.labels["lock_scan_lockt_requests"] += probes
	st.Out = strings.Join(out, "; ")
	w.checkQuiescent()
}

// probeLockt issues one LOCKT of a scan and compares the reply with the model.
func (w *world) probeLockt(op *opSpec, l *mLeaf, p perspective, unit, end int, table string) {
	res, err := w.program.NfsV4Nfsproc4Compound(context.Background(), buildCompound(op))
	where := func() string {
		who := "the observer (holds nothing, conflicts with every lock)"
		if p.key != "" {
			who = fmt.Sprintf("lock-owner %s (client ID %#x, owner %q)", p.key, p.cid, p.owner)
		}
		return fmt.Sprintf("lock table scan (%s) of leaf#%d fh=%s, units %d..%d (offset %d length %d) type %d as %s; model table: %s", w.script[len(w.script)-1].Note, l.idx, l.fh, unit, end, op.Offset, op.Length, op.LockType, who, table)
	}
	if err != nil || res == nil {
		w.fail("C20", "%s: COMPOUND returned a Go error: %v", where(), err)
	}
	// A LOCKT that leaves a lock behind would make the next one hang.
	w.checkLocksFree()
	w.m.otherFlights = len(w.flights)
	inf := &inflight{op: op, phase: "start"}
	out := w.m.run(inf)
	if out.blocked != "" {
		panic("harness: the model blocks a LOCKT")
	}
	match := len(res.Resarray) == len(out.sts)
	if match {
		for i, r := range res.Resarray {
			if resStatus(r) != out.sts[i] {
				match = false
			}
		}
	}
	if !match {
		var want []string
		for _, s := range out.sts {
			want = append(want, statusName(s))
		}
		w.fail("C20", "%s: reply %s, the model expects [%s]: %s", where(), describe(res), strings.Join(want, ","), out.why)
	}
	for _, c := range out.checks {
		if err := c.fn(res); err != nil {
			w.fail("C20", "%s: %v", where(), err)
		}
	}
}

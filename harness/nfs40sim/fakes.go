// Package nfs40sim is a simulator for the NFSv4.0 program of
// bb-remote-execution (pkg/filesystem/virtual/nfsv4/nfs40_program.go): the
// real program, opened-files pool, NFS handle allocator and in-memory
// directory run against hand-written fakes (clock, random numbers, file
// pool, counting leaves, parking directory) while 1-3 protocol-following
// client simulators issue COMPOUNDs. A reference model predicts every
// reply and all open/close accounting. Properties C18, C19 and C20(b).
package nfs40sim

import (
	"context"
	"fmt"
	"io"
	"runtime"
	"sync"
	"sync/atomic"
	"time"

	"github.com/buildbarn/bb-remote-execution/pkg/filesystem/pool"
	"github.com/buildbarn/bb-remote-execution/pkg/filesystem/virtual"
	"github.com/buildbarn/bb-storage/pkg/clock"
	"github.com/buildbarn/bb-storage/pkg/filesystem"
	"github.com/buildbarn/bb-storage/pkg/filesystem/path"
)

// ---------------------------------------------------------------------
// Clock: only Now() is used by the NFSv4.0 program.
// ---------------------------------------------------------------------

var epoch = time.Unix(1_000_000, 0)

type simClock struct {
	mu  sync.Mutex
	off time.Duration

	// The harness owns the clock, so it also owns the moment at which a
	// request reads it. The NFSv4.0 program reads the clock in exactly
	// one place: at the top of enter(), right before it acquires the
	// server lock. A request whose reentry gate is armed (see opCtl) is
	// parked inside that Now() call, i.e. outside of every lock of the
	// code under test, until the harness lets it go. Requests are told
	// apart by the goroutine that executes them.
	armed atomic.Int32
	byG   map[uint64]*opCtl
}

func (c *simClock) Now() time.Time {
	if c.armed.Load() > 0 {
		c.mu.Lock()
		ctl := c.byG[goid()]
		c.mu.Unlock()
		if ctl != nil {
			ctl.reentryGate(c)
		}
	}
	c.mu.Lock()
	defer c.mu.Unlock()
	return epoch.Add(c.off)
}

func (c *simClock) advance(d time.Duration) {
	c.mu.Lock()
	c.off += d
	c.mu.Unlock()
}

// bind declares that the calling goroutine executes the request of ctl.
func (c *simClock) bind(ctl *opCtl) {
	id := goid()
	c.mu.Lock()
	if c.byG == nil {
		c.byG = map[uint64]*opCtl{}
	}
	c.byG[id] = ctl
	c.mu.Unlock()
}

func (c *simClock) unbind() {
	id := goid()
	c.mu.Lock()
	delete(c.byG, id)
	c.mu.Unlock()
}

// goid returns the ID of the calling goroutine ("goroutine 123 [running]:").
func goid() uint64 {
	var buf [64]byte
	n := runtime.Stack(buf[:], false)
	var id uint64
	for _, ch := range buf[len("goroutine "):n] {
		if ch < '0' || ch > '9' {
			break
		}
		id = id*10 + uint64(ch-'0')
	}
	return id
}

func (c *simClock) NewContextWithTimeout(parent context.Context, timeout time.Duration) (context.Context, context.CancelFunc) {
	panic("harness: simClock.NewContextWithTimeout is not expected to be used by the NFSv4.0 program")
}

func (c *simClock) NewTimer(d time.Duration) (clock.Timer, <-chan time.Time) {
	panic("harness: simClock.NewTimer is not expected to be used by the NFSv4.0 program")
}

func (c *simClock) NewTicker(d time.Duration) (clock.Ticker, <-chan time.Time) {
	panic("harness: simClock.NewTicker is not expected to be used by the NFSv4.0 program")
}

// ---------------------------------------------------------------------
// Deterministic random number generator: a bijective mix of a counter,
// so that every 64-bit value (client IDs, state ID "other" fields, file
// handles) is handed out at most once per case.
// ---------------------------------------------------------------------

type seqRNG struct {
	mu   sync.Mutex
	n    uint64
	salt uint64
}

func mix64(x uint64) uint64 {
	x += 0x9E3779B97F4A7C15
	z := x
	z = (z ^ (z >> 30)) * 0xBF58476D1CE4E5B9
	z = (z ^ (z >> 27)) * 0x94D049BB133111EB
	return z ^ (z >> 31)
}

func (g *seqRNG) Uint64() uint64 {
	g.mu.Lock()
	g.n++
	v := mix64(g.n ^ g.salt)
	g.mu.Unlock()
	return v
}

func (g *seqRNG) Uint32() uint32     { return uint32(g.Uint64()) }
func (g *seqRNG) Float64() float64   { return 0 }
func (g *seqRNG) Int64N(int64) int64 { return 0 }
func (g *seqRNG) IntN(int) int       { return 0 }
func (g *seqRNG) Shuffle(int, func(i, j int)) {
}

func (g *seqRNG) Read(p []byte) (int, error) {
	for i := 0; i < len(p); i += 8 {
		v := g.Uint64()
		for j := 0; j < 8 && i+j < len(p); j++ {
			p[i+j] = byte(v >> (8 * j))
		}
	}
	return len(p), nil
}

// ---------------------------------------------------------------------
// In-memory file pool.
// ---------------------------------------------------------------------

type memPool struct{}

func (memPool) NewFile(holeSource pool.HoleSource, size uint64) (filesystem.FileReadWriter, error) {
	return &memFile{data: make([]byte, size)}, nil
}

type memFile struct {
	mu     sync.Mutex
	data   []byte
	closed bool
}

func (f *memFile) ReadAt(p []byte, off int64) (int, error) {
	f.mu.Lock()
	defer f.mu.Unlock()
	if f.closed {
		return 0, fmt.Errorf("harness: pool file read after close")
	}
	if off >= int64(len(f.data)) {
		return 0, io.EOF
	}
	n := copy(p, f.data[off:])
	if n < len(p) {
		return n, io.EOF
	}
	return n, nil
}

func (f *memFile) WriteAt(p []byte, off int64) (int, error) {
	f.mu.Lock()
	defer f.mu.Unlock()
	if f.closed {
		return 0, fmt.Errorf("harness: pool file written after close")
	}
	if end := int(off) + len(p); end > len(f.data) {
		f.data = append(f.data, make([]byte, end-len(f.data))...)
	}
	copy(f.data[off:], p)
	return len(p), nil
}

func (f *memFile) Truncate(size int64) error {
	f.mu.Lock()
	defer f.mu.Unlock()
	if f.closed {
		return fmt.Errorf("harness: pool file truncated after close")
	}
	if int(size) <= len(f.data) {
		f.data = f.data[:size:size]
	} else {
		f.data = append(f.data, make([]byte, int(size)-len(f.data))...)
	}
	return nil
}

func (f *memFile) GetNextRegionOffset(off int64, regionType filesystem.RegionType) (int64, error) {
	f.mu.Lock()
	defer f.mu.Unlock()
	if off >= int64(len(f.data)) {
		return 0, io.EOF
	}
	if regionType == filesystem.Hole {
		return int64(len(f.data)), nil
	}
	return off, nil
}

func (f *memFile) Sync() error { return nil }

func (f *memFile) Close() error {
	f.mu.Lock()
	f.closed = true
	f.mu.Unlock()
	return nil
}

type errorLog struct {
	mu   sync.Mutex
	errs []string
}

func (l *errorLog) Log(err error) {
	l.mu.Lock()
	l.errs = append(l.errs, fmt.Sprint(err))
	l.mu.Unlock()
}

func (l *errorLog) count() int {
	l.mu.Lock()
	defer l.mu.Unlock()
	return len(l.errs)
}

func (l *errorLog) all() []string {
	l.mu.Lock()
	defer l.mu.Unlock()
	return append([]string(nil), l.errs...)
}

// ---------------------------------------------------------------------
// Parking: a COMPOUND carries an *opCtl in its context. Instrumented
// call sites (VirtualOpenChild on the root directory handed to the
// program, leaf I/O) block on a channel when the op's plan names them.
// ---------------------------------------------------------------------

type ctlKey struct{}

const (
	parkOpenBefore = "open_before" // inside VirtualOpenChild, before the real directory is called
	parkOpenAfter  = "open_after"  // inside VirtualOpenChild, after the real directory returned
	parkIO         = "io"          // inside leaf VirtualRead / VirtualWrite / VirtualSetAttributes, before the real call
	// parkReenter: inside the clock's Now() at the top of enter(), when
	// a request that had to wait for the transaction of its open-owner
	// is about to reacquire the server lock (not a plan of the request:
	// armed by the world each time the request starts waiting).
	parkReenter = "reenter"
)

// Fault points: a request may carry one fault that the instrumented
// call sites fire once, instead of (or after) calling the real object.
const (
	faultDirBefore = "dir_before" // VirtualOpenChild of the root handed to the program fails before the real directory is called
	faultDirAfter  = "dir_after"  // ... after the real directory opened/created the file: the wrapper closes the leaf again and reports failure
	faultAlloc     = "alloc"      // the file allocator fails while the real directory creates the file (=> StatusErrIO, logged)
	faultOpenSelf  = "openself"   // VirtualOpenSelf of a leaf fails (OPEN of an existing file, CLAIM_PREVIOUS, I/O with a special state ID)
	faultIO        = "io"         // VirtualRead / VirtualWrite / VirtualSetAttributes of a leaf fails
)

func faultStatus(name string) virtual.Status {
	switch name {
	case "io":
		return virtual.StatusErrIO
	case "access":
		return virtual.StatusErrAccess
	case "rofs":
		return virtual.StatusErrROFS
	case "nxio":
		return virtual.StatusErrNXIO
	}
	panic("harness: unknown fault status " + name)
}

type opCtl struct {
	plan string // one of the park points, or ""

	fault   string // one of the fault points, or ""
	faultSt string // status the fault reports

	mu       sync.Mutex
	parkedAt string
	reached  []string // instrumented call sites this op went through (diagnostic)
	fired    []string // fault points that fired
	release  chan struct{}

	// Reentry gate: when armed, the next clock reading of the request's
	// goroutine parks (one shot).
	gateArmed   bool
	gateRelease chan struct{}
	gateOff     bool // end of the case: never park again
}

func newOpCtl(plan string) *opCtl {
	return &opCtl{plan: plan, release: make(chan struct{})}
}

// armGate makes the request park at its next clock reading. Only called
// while the request's goroutine is durably blocked.
func (c *opCtl) armGate(clk *simClock) {
	c.mu.Lock()
	defer c.mu.Unlock()
	if c.gateArmed || c.gateOff {
		return
	}
	c.gateArmed = true
	clk.armed.Add(1)
}

func (c *opCtl) reentryGate(clk *simClock) {
	c.mu.Lock()
	if !c.gateArmed {
		c.mu.Unlock()
		return
	}
	c.gateArmed = false
	clk.armed.Add(-1)
	ch := make(chan struct{})
	c.gateRelease = ch
	c.parkedAt = parkReenter
	c.reached = append(c.reached, parkReenter)
	c.mu.Unlock()
	<-ch
	c.mu.Lock()
	c.parkedAt = ""
	c.mu.Unlock()
}

// unpark lets a parked request continue, wherever it is parked.
func (c *opCtl) unpark() {
	c.mu.Lock()
	defer c.mu.Unlock()
	switch c.parkedAt {
	case "":
	case parkReenter:
		if c.gateRelease != nil {
			close(c.gateRelease)
			c.gateRelease = nil
		}
	default:
		select {
		case <-c.release:
		default:
			close(c.release)
		}
	}
}

// openGate disarms the reentry gate for good (end of the case).
func (c *opCtl) openGate(clk *simClock) {
	c.mu.Lock()
	defer c.mu.Unlock()
	c.gateOff = true
	if c.gateArmed {
		c.gateArmed = false
		clk.armed.Add(-1)
	}
}

// takeFault reports whether the request of ctx carries a not yet fired
// fault for the given point, and consumes it.
func takeFault(ctx context.Context, point string) (virtual.Status, bool) {
	c, _ := ctx.Value(ctlKey{}).(*opCtl)
	if c == nil {
		return 0, false
	}
	c.mu.Lock()
	defer c.mu.Unlock()
	if c.fault != point {
		return 0, false
	}
	c.fault = ""
	c.fired = append(c.fired, point)
	return faultStatus(c.faultSt), true
}

// peekFault reports whether the request carries a pending fault for the point.
func peekFault(ctx context.Context, point string) bool {
	c, _ := ctx.Value(ctlKey{}).(*opCtl)
	if c == nil {
		return false
	}
	c.mu.Lock()
	defer c.mu.Unlock()
	return c.fault == point
}

func (c *opCtl) firedFaults() []string {
	c.mu.Lock()
	defer c.mu.Unlock()
	return append([]string(nil), c.fired...)
}

func (c *opCtl) where() string {
	c.mu.Lock()
	defer c.mu.Unlock()
	return c.parkedAt
}

func park(ctx context.Context, point string) {
	c, _ := ctx.Value(ctlKey{}).(*opCtl)
	if c == nil {
		return
	}
	c.mu.Lock()
	c.reached = append(c.reached, point)
	if c.plan != point {
		c.mu.Unlock()
		return
	}
	c.plan = "" // park at most once per op
	c.parkedAt = point
	c.mu.Unlock()
	<-c.release
	c.mu.Lock()
	c.parkedAt = ""
	c.mu.Unlock()
}

// parkingDirectory is the root directory as handed to the NFSv4.0
// program (PUTROOTFH). Directories resolved through PUTFH are the real
// ones and never park.
type parkingDirectory struct {
	virtual.Directory
	alloc *countingAllocator
}

func (d *parkingDirectory) VirtualOpenChild(ctx context.Context, name path.Component, shareAccess virtual.ShareMask, createAttributes *virtual.Attributes, existingOptions *virtual.OpenExistingOptions, requested virtual.AttributesMask, openedFileAttributes *virtual.Attributes) (virtual.Leaf, virtual.AttributesMask, virtual.ChangeInfo, virtual.Status) {
	park(ctx, parkOpenBefore)
	if st, fire := takeFault(ctx, faultDirBefore); fire {
		return nil, 0, virtual.ChangeInfo{}, st
	}
	failAlloc := peekFault(ctx, faultAlloc)
	if failAlloc {
		// Armed only for the duration of this call of the real
		// directory, which does not block.
		d.alloc.failNext.Store(true)
	}
	l, m, ci, s := d.Directory.VirtualOpenChild(ctx, name, shareAccess, createAttributes, existingOptions, requested, openedFileAttributes)
	if failAlloc {
		if !d.alloc.failNext.Swap(false) {
			takeFault(ctx, faultAlloc) // the allocator consumed it
		}
	}
	park(ctx, parkOpenAfter)
	if s == virtual.StatusOK {
		if st, fire := takeFault(ctx, faultDirAfter); fire {
			// The directory gives up after it opened the file: it
			// closes the file again; a created file stays created.
			l.VirtualClose(shareAccess)
			return nil, 0, virtual.ChangeInfo{}, st
		}
	}
	return l, m, ci, s
}

// ---------------------------------------------------------------------
// Counting leaves: every file created through the directory is wrapped
// (below the NFS handle allocator's decorator) by a leaf that counts
// opens and closes per share bit and detects I/O on a closed leaf.
// ---------------------------------------------------------------------

const (
	bitRead  = 0
	bitWrite = 1
)

type leafStats struct {
	idx int
	raw virtual.Leaf // the pool-backed file below the counting wrapper (lock probe)

	mu         sync.Mutex
	opens      [2]int
	closes     [2]int
	reads      int
	writes     int
	violations []string
}

func (s *leafStats) snapshot() (opens, closes [2]int, io int, violations []string) {
	s.mu.Lock()
	defer s.mu.Unlock()
	return s.opens, s.closes, s.reads + s.writes, append([]string(nil), s.violations...)
}

func (s *leafStats) addOpen(share virtual.ShareMask) {
	s.mu.Lock()
	if share&virtual.ShareMaskRead != 0 {
		s.opens[bitRead]++
	}
	if share&virtual.ShareMaskWrite != 0 {
		s.opens[bitWrite]++
	}
	s.mu.Unlock()
}

type leafRegistry struct {
	mu     sync.Mutex
	leaves []*leafStats
}

func (r *leafRegistry) all() []*leafStats {
	r.mu.Lock()
	defer r.mu.Unlock()
	return append([]*leafStats(nil), r.leaves...)
}

type countingAllocator struct {
	base     virtual.FileAllocator
	reg      *leafRegistry
	failNext atomic.Bool
}

func (a *countingAllocator) NewFile(holeSource pool.HoleSource, isExecutable bool, size uint64, shareAccess virtual.ShareMask) (virtual.LinkableLeaf, error) {
	if a.failNext.Swap(false) {
		return nil, fmt.Errorf("harness: injected file allocation failure")
	}
	l, err := a.base.NewFile(holeSource, isExecutable, size, shareAccess)
	if err != nil {
		return nil, err
	}
	a.reg.mu.Lock()
	st := &leafStats{idx: len(a.reg.leaves), raw: l}
	a.reg.leaves = append(a.reg.leaves, st)
	a.reg.mu.Unlock()
	st.addOpen(shareAccess)
	return &countingLeaf{LinkableLeaf: l, st: st}, nil
}

type countingLeaf struct {
	virtual.LinkableLeaf
	st *leafStats
}

func (l *countingLeaf) VirtualOpenSelf(ctx context.Context, shareAccess virtual.ShareMask, options *virtual.OpenExistingOptions, requested virtual.AttributesMask, attributes *virtual.Attributes) virtual.Status {
	if st, fire := takeFault(ctx, faultOpenSelf); fire {
		return st
	}
	s := l.LinkableLeaf.VirtualOpenSelf(ctx, shareAccess, options, requested, attributes)
	if s == virtual.StatusOK {
		l.st.addOpen(shareAccess)
	}
	return s
}

func (l *countingLeaf) VirtualClose(shareAccess virtual.ShareMask) {
	st := l.st
	st.mu.Lock()
	bad := false
	if shareAccess&virtual.ShareMaskRead != 0 {
		if st.closes[bitRead] >= st.opens[bitRead] {
			bad = true
		}
	}
	if shareAccess&virtual.ShareMaskWrite != 0 {
		if st.closes[bitWrite] >= st.opens[bitWrite] {
			bad = true
		}
	}
	if shareAccess&^(virtual.ShareMaskRead|virtual.ShareMaskWrite) != 0 || shareAccess == 0 {
		bad = true
	}
	if bad {
		st.violations = append(st.violations, fmt.Sprintf("leaf#%d: VirtualClose(share=%d) with opens=%v closes=%v: closed more often than opened", st.idx, shareAccess, st.opens, st.closes))
		st.mu.Unlock()
		// Not forwarded: the pool-backed file would panic.
		return
	}
	if shareAccess&virtual.ShareMaskRead != 0 {
		st.closes[bitRead]++
	}
	if shareAccess&virtual.ShareMaskWrite != 0 {
		st.closes[bitWrite]++
	}
	st.mu.Unlock()
	l.LinkableLeaf.VirtualClose(shareAccess)
}

func (l *countingLeaf) VirtualRead(ctx context.Context, buf []byte, offset uint64) (int, bool, virtual.Status) {
	park(ctx, parkIO)
	st := l.st
	st.mu.Lock()
	st.reads++
	if st.opens[bitRead]-st.closes[bitRead] <= 0 {
		st.violations = append(st.violations, fmt.Sprintf("leaf#%d: VirtualRead while not opened for reading (opens=%v closes=%v)", st.idx, st.opens, st.closes))
		st.mu.Unlock()
		return 0, false, virtual.StatusErrIO
	}
	st.mu.Unlock()
	if fst, fire := takeFault(ctx, faultIO); fire {
		return 0, false, fst
	}
	return l.LinkableLeaf.VirtualRead(ctx, buf, offset)
}

func (l *countingLeaf) VirtualWrite(ctx context.Context, buf []byte, offset uint64) (int, virtual.Status) {
	park(ctx, parkIO)
	st := l.st
	st.mu.Lock()
	st.writes++
	if st.opens[bitWrite]-st.closes[bitWrite] <= 0 {
		st.violations = append(st.violations, fmt.Sprintf("leaf#%d: VirtualWrite while not opened for writing (opens=%v closes=%v)", st.idx, st.opens, st.closes))
		st.mu.Unlock()
		return 0, virtual.StatusErrIO
	}
	st.mu.Unlock()
	if fst, fire := takeFault(ctx, faultIO); fire {
		return 0, fst
	}
	return l.LinkableLeaf.VirtualWrite(ctx, buf, offset)
}

func (l *countingLeaf) VirtualSetAttributes(ctx context.Context, in *virtual.Attributes, requested virtual.AttributesMask, out *virtual.Attributes) virtual.Status {
	park(ctx, parkIO)
	if fst, fire := takeFault(ctx, faultIO); fire {
		return fst
	}
	return l.LinkableLeaf.VirtualSetAttributes(ctx, in, requested, out)
}

func (f *memFile) Len() (int64, error) {
	f.mu.Lock()
	defer f.mu.Unlock()
	return int64(len(f.data)), nil
}

package nfs40sim

import (
	"encoding/hex"
	"fmt"
	"math"
	"time"

	nfsv4 "github.com/buildbarn/go-xdr/pkg/protocols/nfsv4"
	"pgregory.net/rapid"
)

// ---------------------------------------------------------------------
// Client simulators. Everything a client knows it learned from replies.
// ---------------------------------------------------------------------

type cOpen struct {
	fh      string
	name    string
	sid     sid
	access  uint32
	unconf  bool
	locks   map[string]sid // lock-owner key -> lock state ID on this open
	lockSeq map[string]bool
}

type cOwner struct {
	key   string
	seq   uint32 // seqid of the last request that advanced the owner's sequence
	opens []*cOpen
	last  *opSpec
	busy  int

	// The client chooses the seqid of the first request of a new
	// open-owner (RFC 7530 section 9.1.7). zeroFirst: that first seqid
	// is 0 (which no successor computation ever yields).
	zeroFirst bool
	started   bool
}

type cLockOwner struct {
	key  string
	seq  uint32
	last *opSpec

	zeroFirst bool
	started   bool
}

// nxt is the seqid of the owner's next request.
func (o *cOwner) nxt() uint32 {
	if o.zeroFirst && !o.started {
		return 0
	}
	return nextSeq(o.seq)
}

func (o *cLockOwner) nxt() uint32 {
	if o.zeroFirst && !o.started {
		return 0
	}
	return nextSeq(o.seq)
}

// initialSeqids are the "last used" values an owner starts from: the
// first request carries the successor. Values next to 2^32 make the
// sequence wrap around (and skip 0, as nextSeqID documents) within a
// short case.
var initialSeqids = []uint32{0, 0, 0, 1, math.MaxUint32 - 3, math.MaxUint32 - 2, math.MaxUint32 - 1, math.MaxUint32}

// drawInitialSeqids lets the client pick where the seqid sequences of
// its owners start.
func (w *world) drawInitialSeqids(c *cClient) {
	for _, o := range c.owners {
		if pick(w, "ooSeqStart", []string{"drawn", "zero"}) == "zero" && w.pct(25, "ooZeroFirst") {
			o.zeroFirst = true
			continue
		}
		o.seq = pick(w, "ooSeq", initialSeqids)
	}
	for _, lo := range c.lockOwner {
		if pick(w, "loSeqStart", []string{"drawn", "zero"}) == "zero" && w.pct(25, "loZeroFirst") {
			lo.zeroFirst = true
			continue
		}
		lo.seq = pick(w, "loSeq", initialSeqids)
	}
}

type cClient struct {
	idx       int
	longID    string
	verifier  uint64
	cid       uint64 // from the latest SETCLIENTID reply
	confirm   string
	confirmed uint64 // client ID that was confirmed last (0: none)
	oldCIDs   []uint64
	owners    []*cOwner
	lockOwner []*cLockOwner
	graveyard []sid
	vanished  bool
}

func newClient(i int) *cClient {
	c := &cClient{idx: i, longID: fmt.Sprintf("client-%d", i), verifier: uint64(100 * (i + 1))}
	for k := 0; k < 2; k++ {
		// Every client uses the same owner byte strings: owners are
		// scoped by client ID (RFC 7530 section 9.1.1), so equal bytes
		// under different clients are different owners.
		c.owners = append(c.owners, &cOwner{key: fmt.Sprintf("oo%d", k)})
		c.lockOwner = append(c.lockOwner, &cLockOwner{key: fmt.Sprintf("lo%d", k)})
	}
	return c
}

func (c *cClient) owner(key string) *cOwner {
	for _, o := range c.owners {
		if o.key == key {
			return o
		}
	}
	return nil
}

func (c *cClient) lockOwnerByKey(key string) *cLockOwner {
	for _, o := range c.lockOwner {
		if o.key == key {
			return o
		}
	}
	return nil
}

func (c *cClient) allOpens() []*cOpen {
	var l []*cOpen
	for _, o := range c.owners {
		l = append(l, o.opens...)
	}
	return l
}

func (c *cClient) forgetState() {
	for _, o := range c.owners {
		for _, op := range o.opens {
			c.graveyard = append(c.graveyard, op.sid)
			for _, s := range op.locks {
				c.graveyard = append(c.graveyard, s)
			}
		}
		o.opens = nil
	}
	if len(c.graveyard) > 8 {
		c.graveyard = c.graveyard[len(c.graveyard)-8:]
	}
}

func (c *cClient) findOpen(other string) (*cOwner, *cOpen) {
	for _, o := range c.owners {
		for _, op := range o.opens {
			if op.sid.Other == other {
				return o, op
			}
		}
	}
	return nil, nil
}

func (c *cClient) dropOpen(other string) {
	for _, o := range c.owners {
		for i, op := range o.opens {
			if op.sid.Other == other {
				c.graveyard = append(c.graveyard, op.sid)
				for _, s := range op.locks {
					c.graveyard = append(c.graveyard, s)
				}
				o.opens = append(o.opens[:i], o.opens[i+1:]...)
				return
			}
		}
	}
}

// learn updates the client's knowledge from a reply, following RFC 7530
// section 9.1.7 for seqids.
func (c *cClient) learn(w *world, op *opSpec, res *nfsv4.Compound4res, inf *inflight) {
	if c != w.observer && (c.idx >= len(w.clients) || w.clients[c.idx] != c) {
		return // ghost client of the final probe
	}
	mi := mainIndex(op)
	if op.Kind == kRemove || op.Kind == kLookup || op.Kind == kPutfh {
		return
	}
	if len(res.Resarray) <= mi {
		return // failed at the file handle operation
	}
	main := res.Resarray[mi]
	st := resStatus(main)
	normal := op.Note == "" && op.Retx == 0
	// A reply to a request that was first sent before the state ID's
	// seqid was placed next to its wrap-around (preset.go) is, for the
	// client the simulator stands for, 2^32 operations old: it does not
	// take the state ID from it (the serial comparison below would call
	// the ancient seqid the newer one).
	origN := op.N
	if op.Retx != 0 {
		origN = op.Retx
	}
	current := func(other string) bool {
		at, was := w.presetAt[other]
		return !was || origN > at
	}
	if o := c.owner(op.Owner); o != nil && (op.Kind == kOpen || op.Kind == kOpenConfirm || op.Kind == kOpenDowngrade || op.Kind == kClose || (op.Kind == kLock && op.NewLO)) {
		if seqidAdvances(st) {
			o.seq = op.Seq
			o.started = true
		}
	}
	if lo := c.lockOwnerByKey(op.LockOwner); lo != nil && (op.Kind == kLock || op.Kind == kLocku) {
		if st == ok || st == nfsv4.NFS4ERR_DENIED || (normal && seqidAdvances(st)) {
			lo.seq = op.LockSeq
			lo.started = true
		}
	}
	if st == nfsv4.NFS4ERR_STALE_CLIENTID && normal {
		c.confirmed = 0
		c.forgetState()
		return
	}
	switch op.Kind {
	case kSetclientid:
		if r, isOK := main.(*nfsv4.NfsResop4_OP_SETCLIENTID).Opsetclientid.(*nfsv4.Setclientid4res_NFS4_OK); isOK {
			c.cid = r.Resok4.Clientid
			c.confirm = hex.EncodeToString(r.Resok4.SetclientidConfirm[:])
		}
	case kSetclientidConfirm:
		if st == ok && op.ClientID != c.confirmed && op.ClientID == c.cid {
			if c.confirmed != 0 {
				c.oldCIDs = append(c.oldCIDs, c.confirmed)
			}
			c.forgetState()
			c.confirmed = op.ClientID
		}
	case kOpen:
		r, isOK := main.(*nfsv4.NfsResop4_OP_OPEN).Opopen.(*nfsv4.Open4res_NFS4_OK)
		if !isOK {
			return
		}
		o := c.owner(op.Owner)
		if o == nil || op.ClientID != c.confirmed {
			return
		}
		s := sidFromWire(r.Resok4.Stateid)
		unconf := r.Resok4.Rflags&nfsv4.OPEN4_RESULT_CONFIRM != 0
		if _, co := c.findOpen(s.Other); co != nil {
			if int32(s.Seq-co.sid.Seq) > 0 && current(s.Other) {
				co.sid = s
				co.access |= op.Access
			}
			return
		}
		if unconf {
			// The server treats the owner as new: older opens are gone.
			for _, old := range append([]*cOpen(nil), o.opens...) {
				c.dropOpen(old.sid.Other)
			}
		}
		if len(res.Resarray) > mi+1 {
			if g, isOK := res.Resarray[mi+1].(*nfsv4.NfsResop4_OP_GETFH).Opgetfh.(*nfsv4.Getfh4res_NFS4_OK); isOK {
				o.opens = append(o.opens, &cOpen{fh: hex.EncodeToString(g.Resok4.Object), name: op.Name, sid: s, access: op.Access, unconf: unconf, locks: map[string]sid{}})
			}
		}
	case kOpenConfirm:
		if r, isOK := main.(*nfsv4.NfsResop4_OP_OPEN_CONFIRM).OpopenConfirm.(*nfsv4.OpenConfirm4res_NFS4_OK); isOK {
			s := sidFromWire(r.Resok4.OpenStateid)
			if o, co := c.findOpen(s.Other); co != nil && current(s.Other) {
				co.sid = s
				for _, x := range o.opens {
					x.unconf = false
				}
			}
		} else if normal && (st == nfsv4.NFS4ERR_BAD_STATEID || st == nfsv4.NFS4ERR_OLD_STATEID) {
			c.dropOpen(op.Stateid.Other)
		}
	case kOpenDowngrade:
		if r, isOK := main.(*nfsv4.NfsResop4_OP_OPEN_DOWNGRADE).OpopenDowngrade.(*nfsv4.OpenDowngrade4res_NFS4_OK); isOK {
			s := sidFromWire(r.Resok4.OpenStateid)
			if _, co := c.findOpen(s.Other); co != nil && int32(s.Seq-co.sid.Seq) > 0 && current(s.Other) {
				co.sid = s
				co.access = op.Access
			}
		} else if normal && (st == nfsv4.NFS4ERR_BAD_STATEID || st == nfsv4.NFS4ERR_OLD_STATEID) {
			c.dropOpen(op.Stateid.Other)
		}
	case kClose:
		if _, isOK := main.(*nfsv4.NfsResop4_OP_CLOSE).Opclose.(*nfsv4.Close4res_NFS4_OK); isOK {
			c.dropOpen(op.Stateid.Other)
		} else if normal && (st == nfsv4.NFS4ERR_BAD_STATEID || st == nfsv4.NFS4ERR_OLD_STATEID) {
			c.dropOpen(op.Stateid.Other)
		}
	case kLock:
		if r, isOK := main.(*nfsv4.NfsResop4_OP_LOCK).Oplock.(*nfsv4.Lock4res_NFS4_OK); isOK {
			s := sidFromWire(r.Resok4.LockStateid)
			if op.NewLO {
				if _, co := c.findOpen(op.Stateid.Other); co != nil {
					if old, have := co.locks[op.LockOwner]; !have || old.Other != s.Other || (int32(s.Seq-old.Seq) > 0 && current(s.Other)) {
						co.locks[op.LockOwner] = s
					}
				}
			} else {
				for _, co := range c.allOpens() {
					for k, old := range co.locks {
						if old.Other == s.Other && int32(s.Seq-old.Seq) > 0 && current(s.Other) {
							co.locks[k] = s
						}
					}
				}
			}
		} else if normal && !op.NewLO && (st == nfsv4.NFS4ERR_BAD_STATEID || st == nfsv4.NFS4ERR_OLD_STATEID) {
			c.dropLock(op.Stateid.Other)
		} else if normal && op.NewLO && (st == nfsv4.NFS4ERR_BAD_STATEID || st == nfsv4.NFS4ERR_OLD_STATEID) {
			c.dropOpen(op.Stateid.Other)
		}
	case kLocku:
		if r, isOK := main.(*nfsv4.NfsResop4_OP_LOCKU).Oplocku.(*nfsv4.Locku4res_NFS4_OK); isOK {
			s := sidFromWire(r.LockStateid)
			for _, co := range c.allOpens() {
				for k, old := range co.locks {
					if old.Other == s.Other && int32(s.Seq-old.Seq) > 0 && current(s.Other) {
						co.locks[k] = s
					}
				}
			}
		} else if normal && (st == nfsv4.NFS4ERR_BAD_STATEID || st == nfsv4.NFS4ERR_OLD_STATEID) {
			c.dropLock(op.Stateid.Other)
		}
	case kReleaseLockowner:
		if st == ok {
			for _, co := range c.allOpens() {
				if s, have := co.locks[op.LockOwner]; have {
					c.graveyard = append(c.graveyard, s)
					delete(co.locks, op.LockOwner)
				}
			}
		}
	case kRead, kWrite, kSetattr:
		if normal && (st == nfsv4.NFS4ERR_BAD_STATEID || st == nfsv4.NFS4ERR_OLD_STATEID) && !op.Stateid.isSpecialOther() {
			c.dropOpen(op.Stateid.Other)
			c.dropLock(op.Stateid.Other)
		}
	}
}

func (c *cClient) dropLock(other string) {
	for _, co := range c.allOpens() {
		for k, s := range co.locks {
			if s.Other == other {
				c.graveyard = append(c.graveyard, s)
				delete(co.locks, k)
			}
		}
	}
}

// ---------------------------------------------------------------------
// Generator.
// ---------------------------------------------------------------------

type profile struct {
	property   string
	name       string
	ops        []string // weighted multiset of action names
	minSteps   int
	maxSteps   int
	devPct     int // chance (percent) that a request is altered
	parkPct    int // chance (percent) that a parkable request is parked
	sharedLO   bool
	warmPct    int
	confirmPct int
	warmOpen   bool
	// inflightRetxPct: chance that a retransmission duplicates a request
	// that is still in flight, if there is one.
	inflightRetxPct int
	// dupParkedPct: chance that an OPEN that got parked is retransmitted
	// right away (1-3 times).
	dupParkedPct int
	// gatePct: chance that a request that is going to wait behind the
	// transaction of its open-owner is held at the clock reading of
	// enter() when it wakes up (so that time and other requests can pass
	// before it reacquires the server).
	gatePct int
	// faultPct: chance that an OPEN or an I/O request carries a
	// one-shot fault of the file system below the server.
	faultPct int
	// scanLocks: after every request that may release byte-range locks
	// the whole lock table of the files is read back through LOCKT.
	scanLocks  bool
	nontrivial func(ev, labels map[string]int) bool
}

var fileNames = []string{"a", "b", "c"}

var faultStatuses = []string{"io", "io", "access", "rofs", "nxio"}

func (w *world) pct(p int, label string) bool {
	if p <= 0 {
		return false
	}
	return rapid.IntRange(0, 99).Draw(w.rt, label) < p
}

// pctRare is pct for events that must stay rare: rapid's integers lean
// towards small values, so "drawn value below p" comes true far more
// often than p percent of the time; the upper end of the range does not
// have that pull (and shrinking moves away from it).
func (w *world) pctRare(p int, label string) bool {
	if p <= 0 {
		return false
	}
	return rapid.IntRange(0, 99).Draw(w.rt, label) >= 100-p
}

func pick[T any](w *world, label string, l []T) T {
	return l[rapid.IntRange(0, len(l)-1).Draw(w.rt, label)]
}

// drawRange draws a lock range in units, weighted towards short ranges,
// adjacency and both ends of the offset space.
func (w *world) drawRange() (uint64, uint64, string) {
	i := rapid.OneOf(rapid.IntRange(0, nUnits-1), rapid.SampledFrom([]int{0, 1, 2, 3, 15, 16, 17, nUnits - 2, nUnits - 1})).Draw(w.rt, "from")
	maxLen := nUnits - i
	n := rapid.OneOf(rapid.IntRange(1, maxLen), rapid.IntRange(1, min(3, maxLen)), rapid.Just(maxLen)).Draw(w.rt, "len")
	j := i + n
	off := cut(i)
	if j == nUnits {
		if rapid.Bool().Draw(w.rt, "allOnes") {
			w.label("range_to_eof_length_all_ones")
			return off, ^uint64(0), "to_eof_all_ones"
		}
		// offset+length = 2^64-1 exactly: the largest end a finite
		// length can name.
		w.label("range_end_2_64_minus_1_finite_length")
		return off, ^uint64(0) - off, "to_max_offset"
	}
	if j == nUnits-1 {
		w.label("range_end_2_64_minus_2")
	}
	return off, cut(j) - cut(i), ""
}

// step performs one generated action.
func (w *world) step() {
	act := pick(w, "action", w.prof.ops)
	switch act {
	case "release":
		var parked []*flight
		for _, fl := range w.flights {
			if fl.ctl.where() != "" {
				parked = append(parked, fl)
			}
		}
		if len(parked) > 0 {
			fl := pick(w, "which", parked)
			wrapsBefore := w.wraps()
			w.release(fl)
			w.retxIfWrapped(fl.client, fl.op, wrapsBefore)
			return
		}
		act = kOpen
	case "advance":
		d := pick(w, "duration", []time.Duration{time.Second, 10 * time.Second, 40 * time.Second, 60 * time.Second, leaseTime, leaseTime + 1, leaseTime + time.Second, 2 * leaseTime})
		w.advance(d)
		return
	case "vanish":
		c := pick(w, "client", w.clients)
		c.vanished = !c.vanished
		w.label("vanish_toggle")
		return
	case "window":
		if w.reentryWindow() {
			return
		}
		act = kOpen
	case kPreset:
		if w.presetAction() {
			return
		}
		act = kOpen
	}
	var live []*cClient
	for _, c := range w.clients {
		if !c.vanished {
			live = append(live, c)
		}
	}
	if len(live) == 0 {
		w.advance(10 * time.Second)
		return
	}
	c := pick(w, "client", live)
	if len(w.presetAt) > 0 {
		// State IDs next to their wrap-around: mostly go on with a client
		// that has one, and with a request that advances it or is checked
		// against it (the pickers below prefer those state IDs).
		var hot []*cClient
		for _, x := range live {
			if w.hotClient(x) {
				hot = append(hot, x)
			}
		}
		if len(hot) > 0 && w.pct(60, "goOnNearTheWrap") {
			c = pick(w, "hotClient", hot)
			if acts := w.hotActions(c); !contains(acts, act) {
				act = pick(w, "hotAction", acts)
			}
		}
	}
	for attempt := 0; attempt < 4; attempt++ {
		op := w.genOp(c, act)
		if op == nil {
			// Infeasible for this client right now: fall back to
			// something that makes progress.
			switch {
			case c.confirmed == 0 && (c.cid == 0 || attempt > 1):
				act = kSetclientid
			case c.confirmed == 0:
				act = kSetclientidConfirm
			default:
				act = pick(w, "fallback", []string{kOpen, kOpen, kOpen, kRenew, kLookup})
			}
			continue
		}
		w.gateIfWaiting(op)
		if !w.prof.sharedLO && w.wouldShareLockOwner(op) {
			// Soundness: one lock-owner is used with at most one open
			// per file (see ASSUMPTIONS); decided on the server's
			// state, the client may have forgotten its lock state.
			w.label("excluded_lock_owner_on_two_opens_of_one_file")
			act = kLockt
			continue
		}
		if len(w.flights) >= 3 {
			op.Park = ""
		}
		w.noteSent(c, op)
		wrapsBefore := w.wraps()
		w.issue(c, op)
		w.followUp(c, op)
		w.duplicateParked(c, op)
		w.retxIfWrapped(c, op, wrapsBefore)
		return
	}
}

// duplicateParked: a client whose OPEN is taking long (parked inside
// VirtualOpenChild) retransmits it, possibly several times, before the
// reply arrives.
func (w *world) duplicateParked(c *cClient, op *opSpec) {
	if op.Kind != kOpen || op.Park == "" || op.Retx != 0 || !w.pct(w.prof.dupParkedPct, "dupParked") {
		return
	}
	var orig *flight
	for _, fl := range w.flights {
		if fl.op == op && fl.ctl.where() != "" {
			orig = fl
		}
	}
	if orig == nil {
		return // it did not get as far as the park point
	}
	n := rapid.IntRange(1, 3).Draw(w.rt, "duplicates")
	for i := 0; i < n && len(w.flights) < 5; i++ {
		d := *op
		d.Out, d.Park, d.N = "", "", 0
		d.Fault, d.FaultSt = "", ""
		d.Retx, d.Note = op.N, "retransmission"
		d.Gate = false
		w.gateIfWaiting(&d)
		w.issue(c, &d)
	}
	if w.pct(50, "releaseAfterDuplicates") {
		w.release(orig)
	}
}

// gateIfWaiting decides how a request that is going to wait behind the
// transaction of its open-owner wakes up. Requests that wake up on
// their own all race for the server lock, and the Go scheduler decides
// who wins; that is only deterministic if it does not matter, i.e. if
// all of them are identical retransmissions of one and the same request
// (whatever order they are served in, each gets that request's reply).
// Every other waiter is held at its clock reading at the top of enter()
// and let go by the harness, one at a time: the harness owns the order.
func (w *world) gateIfWaiting(op *opSpec) {
	oo := w.targetOO(op)
	if oo == nil || !oo.txn {
		return
	}
	if !op.Gate && w.pct(w.prof.gatePct, "gate") {
		op.Gate = true
	}
	if op.Gate {
		return
	}
	free := w.freeWaiters(oo)
	if len(free) == 0 {
		return // the only one that wakes up on its own
	}
	if !allIdentical(free, op) {
		op.Gate = true
		w.label("waiter_with_other_content_held_at_reentry")
		return
	}
	w.label("second_identical_duplicate_waits_behind_original")
}

// freeWaiters are the requests waiting behind the transaction of oo that
// wake up on their own.
func (w *world) freeWaiters(oo *mOO) []*opSpec {
	var l []*opSpec
	for _, x := range w.flights {
		if x.inf != nil && x.inf.waitOn == oo && !x.op.Gate {
			l = append(l, x.op)
		}
	}
	return l
}

// allIdentical reports whether op and the given waiters are unaltered
// retransmissions of one and the same request.
func allIdentical(waiters []*opSpec, op *opSpec) bool {
	if op.Retx == 0 || op.Note != "retransmission" {
		return false
	}
	for _, x := range waiters {
		if x.Retx != op.Retx || x.Note != "retransmission" {
			return false
		}
	}
	return true
}

// followUp is what a protocol-following client does right after an OPEN
// that asks for confirmation: it sends OPEN_CONFIRM (usually).
func (w *world) followUp(c *cClient, op *opSpec) {
	if op.Kind != kOpen || op.Note != "" || op.Retx != 0 {
		return
	}
	o := c.owner(op.Owner)
	if o == nil || o.busy > 0 {
		return
	}
	for _, co := range o.opens {
		if co.unconf && co.name == op.Name && w.pct(w.prof.confirmPct, "autoConfirm") {
			cf := &opSpec{Kind: kOpenConfirm, FH: co.fh, Owner: o.key, Seq: o.nxt(), Stateid: co.sid}
			w.noteSent(c, cf)
			w.issue(c, cf)
			return
		}
	}
}

// wouldShareLockOwner reports whether a LOCK with a new lock-owner would
// give that lock-owner lock state on a second open of the same file.
func (w *world) wouldShareLockOwner(op *opSpec) bool {
	if op.Kind != kLock || !op.NewLO {
		return false
	}
	of := w.m.ofByOth[op.Stateid.Other]
	if of == nil {
		return false
	}
	lo := of.oo.conf.los[op.LockOwner]
	if lo == nil {
		return false
	}
	for _, lf := range lo.files {
		if lf.of != of && lf.of.leaf == of.leaf {
			return true
		}
	}
	return false
}

// targetOO is the open-owner whose transaction the request would join.
func (w *world) targetOO(op *opSpec) *mOO {
	m := w.m
	switch op.Kind {
	case kOpen:
		if c := m.confirmedByShort(op.ClientID); c != nil {
			return c.oos[op.Owner]
		}
	case kOpenConfirm, kOpenDowngrade, kClose:
		if of := m.ofByOth[op.Stateid.Other]; of != nil {
			return of.oo
		}
	case kLock:
		if op.NewLO {
			if of := m.ofByOth[op.Stateid.Other]; of != nil {
				return of.oo
			}
		}
	}
	return nil
}

func (w *world) noteSent(c *cClient, op *opSpec) {
	if op.Retx != 0 {
		return
	}
	switch op.Kind {
	case kOpen, kOpenConfirm, kOpenDowngrade, kClose:
		if o := c.owner(op.Owner); o != nil {
			o.last = op
		}
	case kLock:
		if op.NewLO {
			if o := c.owner(op.Owner); o != nil {
				o.last = op
			}
		}
		if lo := c.lockOwnerByKey(op.LockOwner); lo != nil {
			lo.last = op
		}
	case kLocku:
		if lo := c.lockOwnerByKey(op.LockOwner); lo != nil {
			lo.last = op
		}
	}
}

func (c *cClient) useCID() uint64 {
	if c.confirmed != 0 {
		return c.confirmed
	}
	return c.cid
}

// knownFiles are the handles the client has seen.
func (w *world) otherFH(c *cClient, not string) string {
	var l []string
	for _, x := range w.clients {
		for _, co := range x.allOpens() {
			if co.fh != not {
				l = append(l, co.fh)
			}
		}
	}
	for _, lf := range w.m.leaves {
		if lf.fh != "" && lf.fh != not {
			l = append(l, lf.fh)
		}
	}
	if len(l) == 0 {
		return ""
	}
	return pick(w, "otherfh", l)
}

// genOp builds one request of the given kind for client c, or nil.
func (w *world) genOp(c *cClient, kind string) *opSpec {
	dev := w.pct(w.prof.devPct, "deviate")
	switch kind {
	case kSetclientid:
		op := &opSpec{Kind: kSetclientid, LongID: c.longID, Verifier: c.verifier}
		if c.confirmed != 0 && w.pct(50, "newVerifier") || dev {
			c.verifier++
			op.Verifier = c.verifier
			if c.confirmed != 0 {
				op.Note = "reregister_new_verifier"
			}
		}
		return op
	case kSetclientidConfirm:
		if c.cid == 0 {
			return nil
		}
		op := &opSpec{Kind: kSetclientidConfirm, ClientID: c.cid, Confirm: c.confirm}
		if dev {
			switch pick(w, "dev", []string{"confirm_wrong_verifier", "confirm_old_cid"}) {
			case "confirm_wrong_verifier":
				op.Confirm = "0102030405060708"
				op.Note = "confirm_wrong_verifier"
			case "confirm_old_cid":
				if len(c.oldCIDs) > 0 {
					op.ClientID = pick(w, "old", c.oldCIDs)
					op.Note = "confirm_old_cid"
				}
			}
		}
		return op
	case kRenew:
		op := &opSpec{Kind: kRenew, ClientID: c.useCID()}
		if op.ClientID == 0 || dev {
			w.devCID(c, op, &op.ClientID)
		}
		return op
	case kOpen:
		if c.useCID() == 0 {
			return nil
		}
		var free []*cOwner
		for _, o := range c.owners {
			if o.busy == 0 {
				free = append(free, o)
			}
		}
		var o *cOwner
		switch {
		case w.forceOwner != nil:
			o = w.forceOwner
		case len(free) == 0:
			return nil
		default:
			o = pick(w, "owner", free)
		}
		var nearOpens []*cOpen
		if w.forceOwner == nil && len(w.presetAt) > 0 {
			var nearOwners []*cOwner
			for _, x := range free {
				for _, co := range x.opens {
					if w.hot(co.sid) {
						nearOwners = append(nearOwners, x)
						break
					}
				}
			}
			if len(nearOwners) > 0 && w.pct(70, "ownerNearTheWrap") {
				o = pick(w, "owner", nearOwners)
				for _, co := range o.opens {
					if w.hot(co.sid) {
						nearOpens = append(nearOpens, co)
					}
				}
			}
		}
		op := &opSpec{Kind: kOpen, ClientID: c.useCID(), FH: "root", Owner: o.key, Seq: o.nxt()}
		// rapid's integers lean towards small values; rotating by the
		// step number spreads the opens over the files (a lock-owner or
		// open-owner with state on several files needs that).
		op.Name = fileNames[(rapid.IntRange(0, len(fileNames)-1).Draw(w.rt, "name")+w.stepNo)%len(fileNames)]
		op.Access = uint32(pick(w, "access", []int{1, 2, 3, 3}))
		op.How = pick(w, "how", []string{"nocreate", "unchecked", "unchecked", "unchecked", "unchecked", "unchecked", "unchecked_trunc", "unchecked_size3", "guarded", "guarded_size3", "exclusive"})
		if w.prof.property == "C20" && w.pct(30, "sameFileOtherOwner") {
			for _, other := range c.allOpens() {
				op.Name, op.How = other.name, "unchecked"
			}
		} else if len(nearOpens) > 0 || len(o.opens) > 0 && w.pct(45, "reopen") {
			// Open a file this owner already has open: upgrade.
			cands := o.opens
			if len(nearOpens) > 0 {
				cands = nearOpens
			}
			co := pick(w, "reopen", cands)
			op.Name = co.name
			op.How = pick(w, "how", []string{"nocreate", "unchecked", "unchecked_trunc"})
			if co.access != 3 && w.pct(70, "upgrade") {
				op.Access = 3 &^ co.access
			}
		}
		if w.pct(w.prof.parkPct, "park") {
			op.Park = pick(w, "parkAt", []string{parkOpenBefore, parkOpenAfter, parkOpenAfter})
		}
		if w.pct(8, "otherClaim") {
			// Reclaim-type and delegation claims.
			op.Claim = pick(w, "claim", []string{"previous", "previous", "previous", "previous_deleg", "delegate_cur", "delegate_prev"})
			op.Park = ""
			if len(o.opens) > 0 && w.pct(80, "ownOpen") {
				co := pick(w, "reclaim", o.opens)
				op.FH, op.Name = co.fh, co.name
			} else if fh := w.otherFH(c, ""); fh != "" && w.pct(70, "anyFile") {
				op.FH = fh
			}
			op.Stateid = sidAnonymous
		}
		if w.pctRare(w.prof.faultPct, "fault") {
			if op.Claim == "" {
				op.Fault = pick(w, "faultAt", []string{faultDirBefore, faultDirAfter, faultDirAfter, faultAlloc, faultOpenSelf})
			} else {
				op.Fault = faultOpenSelf
			}
			op.FaultSt = pick(w, "faultSt", faultStatuses)
		}
		if dev {
			switch d := pick(w, "dev", []string{"seq_future", "seq_old", "cid", "fh_none", "fh_file", "fh_root_by_handle", "name_empty", "name_dotdot", "access_invalid", "deny_read", "deny_invalid"}); d {
			case "seq_future":
				op.Seq = nextSeq(nextSeq(op.Seq))
				op.Note = d
			case "seq_old":
				if o.seq > 1 {
					op.Seq = o.seq - 1
					op.Note = d
				}
			case "cid":
				w.devCID(c, op, &op.ClientID)
			case "fh_none":
				op.FH, op.Note = "", d
			case "fh_file":
				if fh := w.otherFH(c, ""); fh != "" {
					op.FH, op.Note = fh, d
				}
			case "fh_root_by_handle":
				op.FH, op.Note = w.m.rootFH, d
			case "name_empty":
				op.Name, op.Note = "", d
			case "name_dotdot":
				op.Name, op.Note = "..", d
			case "access_invalid":
				op.Access, op.Note = uint32(pick(w, "acc", []int{0, 4, 7})), d
			case "deny_read":
				op.Deny, op.Note = uint32(pick(w, "deny", []int{1, 2, 3})), d
			case "deny_invalid":
				op.Deny, op.Note = 9, d
			}
		}
		return op
	case kOpenConfirm, kOpenDowngrade, kClose:
		o, co := w.pickOpen(c, kind == kOpenConfirm)
		if co == nil {
			return nil
		}
		op := &opSpec{Kind: kind, FH: co.fh, Owner: o.key, Seq: o.nxt(), Stateid: co.sid}
		if kind == kOpenDowngrade {
			op.Access = uint32(pick(w, "access", []int{1, 2, 3}))
			if !dev && op.Access&^co.access != 0 {
				op.Access = co.access
			}
		}
		if dev {
			w.devStateOp(c, op, co.fh, &op.Seq, o.seq)
		}
		return op
	case kLock:
		return w.genLock(c, dev)
	case kLocku:
		co, lok := w.pickLock(c)
		if co == nil {
			return nil
		}
		lo := c.lockOwnerByKey(lok)
		off, length, _ := w.drawRange()
		if !dev && w.pct(30, "unlockWholeFile") {
			// Release everything the lock-owner holds on this file:
			// lock state without bytes (and lock-owners whose files
			// differ in that respect) is what RELEASE_LOCKOWNER, CLOSE
			// and a later LOCK with the same lock-owner then meet.
			off, length = 0, math.MaxUint64
			w.label("locku_whole_file")
		}
		op := &opSpec{Kind: kLocku, FH: co.fh, LockOwner: lok, LockSeq: lo.nxt(), Stateid: co.locks[lok], LockType: int32(pick(w, "lt", []int{1, 2})), Offset: off, Length: length}
		if dev {
			if pick(w, "devkind", []string{"state", "range"}) == "range" {
				w.devRange(op)
			} else {
				w.devStateOp(c, op, co.fh, &op.LockSeq, lo.seq)
			}
		}
		return op
	case kLockt:
		if c.useCID() == 0 {
			return nil
		}
		fh := ""
		if opens := c.allOpens(); len(opens) > 0 && w.pct(70, "ownFile") {
			fh = pick(w, "open", opens).fh
		} else {
			fh = w.otherFH(c, "")
		}
		if fh == "" {
			return nil
		}
		off, length, _ := w.drawRange()
		op := &opSpec{Kind: kLockt, FH: fh, LockCID: c.useCID(), LockOwner: pick(w, "lo", c.lockOwner).key, LockType: int32(pick(w, "lt", []int{1, 2, 3, 4})), Offset: off, Length: length}
		if dev {
			switch d := pick(w, "dev", []string{"cid", "range", "fh_root", "fh_none", "unknown_owner"}); d {
			case "cid":
				w.devCID(c, op, &op.LockCID)
			case "range":
				w.devRange(op)
			case "fh_root":
				op.FH, op.Note = "root", d
			case "fh_none":
				op.FH, op.Note = "", d
			case "unknown_owner":
				op.LockOwner, op.Note = "nobody", d
			}
		}
		return op
	case kReleaseLockowner:
		if c.useCID() == 0 {
			return nil
		}
		op := &opSpec{Kind: kReleaseLockowner, LockCID: c.useCID(), LockOwner: pick(w, "lo", c.lockOwner).key}
		if dev {
			w.devCID(c, op, &op.LockCID)
		}
		return op
	case kRead, kWrite, kSetattr:
		return w.genIO(c, kind, dev)
	case kRemove:
		return &opSpec{Kind: kRemove, Name: pick(w, "name", fileNames)}
	case kLookup:
		return &opSpec{Kind: kLookup, Name: pick(w, "name", fileNames)}
	case kPutfh:
		var l []string
		for _, lf := range w.m.leaves {
			if lf.fh != "" {
				l = append(l, lf.fh)
			}
		}
		l = append(l, w.m.rootFH, "00000000000000aa", "0011")
		return &opSpec{Kind: kPutfh, FH: pick(w, "fh", l)}
	case "retx":
		return w.genRetx(c, "same")
	case "retx_diff_op":
		return w.genRetx(c, "diff_op")
	case "retx_diff_sid":
		return w.genRetx(c, "diff_sid")
	}
	panic("harness: unknown action " + kind)
}

func (w *world) pickOpen(c *cClient, wantUnconf bool) (*cOwner, *cOpen) {
	type pair struct {
		o  *cOwner
		co *cOpen
	}
	var l, pref, near []pair
	for _, o := range c.owners {
		if o.busy > 0 {
			continue
		}
		for _, co := range o.opens {
			l = append(l, pair{o, co})
			if co.unconf == wantUnconf {
				pref = append(pref, pair{o, co})
			}
			if !wantUnconf && w.hot(co.sid) {
				near = append(near, pair{o, co})
			}
		}
	}
	if len(near) > 0 && w.pct(75, "preferNearTheWrap") {
		p := pick(w, "open", near)
		return p.o, p.co
	}
	if len(pref) > 0 && w.pct(90, "preferFitting") {
		p := pick(w, "open", pref)
		return p.o, p.co
	}
	if len(l) == 0 {
		return nil, nil
	}
	p := pick(w, "open", l)
	return p.o, p.co
}

func (w *world) pickLock(c *cClient) (*cOpen, string) {
	type pair struct {
		co *cOpen
		k  string
	}
	var l, near []pair
	for _, co := range c.allOpens() {
		for _, lo := range c.lockOwner {
			if s, have := co.locks[lo.key]; have {
				l = append(l, pair{co, lo.key})
				if w.hot(s) {
					near = append(near, pair{co, lo.key})
				}
			}
		}
	}
	if len(l) == 0 {
		return nil, ""
	}
	if len(near) > 0 && w.pct(75, "preferNearTheWrap") {
		l = near
	}
	p := pick(w, "lock", l)
	return p.co, p.k
}

func (w *world) devCID(c *cClient, op *opSpec, field *uint64) {
	var opts []string
	if len(c.oldCIDs) > 0 {
		opts = append(opts, "cid_old")
	}
	if c.cid != 0 && c.cid != c.confirmed {
		opts = append(opts, "cid_unconfirmed")
	}
	opts = append(opts, "cid_bogus")
	if op.Kind != kOpen {
		for _, x := range w.clients {
			if x != c && x.confirmed != 0 {
				opts = append(opts, "cid_foreign")
				break
			}
		}
	}
	switch d := pick(w, "cidDev", opts); d {
	case "cid_old":
		*field, op.Note = pick(w, "old", c.oldCIDs), d
	case "cid_unconfirmed":
		*field, op.Note = c.cid, d
	case "cid_bogus":
		*field, op.Note = 0x0bad0bad0bad, d
	case "cid_foreign":
		for _, x := range w.clients {
			if x != c && x.confirmed != 0 {
				*field, op.Note = x.confirmed, d
				break
			}
		}
	}
}

func (w *world) devRange(op *opSpec) {
	// High offsets: the 16 highest units of the universe.
	hi := cut(rapid.IntRange(17, nUnits-1).Draw(w.rt, "hiUnit"))
	switch d := pick(w, "rangeDev", []string{"length_zero", "length_zero_high_offset", "range_overflow", "range_end_2_64", "range_end_2_64_plus", "range_overflow_huge_length", "range_offset_max_length_1", "locktype_invalid"}); d {
	case "length_zero":
		op.Length, op.Note = 0, d
	case "length_zero_high_offset":
		op.Offset, op.Length, op.Note = hi, 0, d
	case "range_overflow":
		op.Offset, op.Length, op.Note = ^uint64(0)-3, 5, d
	case "range_end_2_64":
		// offset+length = 2^64: one more than a finite length may reach.
		op.Offset, op.Length, op.Note = hi, ^uint64(0)-hi+1, d
	case "range_end_2_64_plus":
		op.Offset, op.Length, op.Note = hi, ^uint64(0)-hi+1+uint64(rapid.IntRange(1, 3).Draw(w.rt, "beyond")), d
	case "range_overflow_huge_length":
		// length = 2^64-2 (not the all-ones "to end of file" value)
		// from an offset of at least 2.
		op.Offset, op.Length, op.Note = uint64(rapid.IntRange(2, 15).Draw(w.rt, "lowOff")), ^uint64(0)-1, d
	case "range_offset_max_length_1":
		// The byte at offset 2^64-1 by a finite length: 2^64-1+1 overflows.
		op.Offset, op.Length, op.Note = ^uint64(0), 1, d
	case "locktype_invalid":
		op.LockType, op.Note = int32(pick(w, "lt", []int{0, 5, -1})), d
	}
}

// devStateOp alters the state ID, file handle or seqid of a request
// that names open or lock state.
func (w *world) devStateOp(c *cClient, op *opSpec, fh string, seqField *uint32, ownerSeq uint32) {
	opts := []string{"sid_old", "sid_future", "sid_wrong_prefix", "sid_special", "fh_none", "fh_root", "seq_future", "seq_old"}
	var foreign, otherFile []sid
	for _, x := range w.clients {
		for _, co := range x.allOpens() {
			cands := []sid{co.sid}
			for _, lo := range x.lockOwner {
				if s, have := co.locks[lo.key]; have {
					cands = append(cands, s)
				}
			}
			for _, s := range cands {
				if s.Other == op.Stateid.Other {
					continue
				}
				if x != c {
					foreign = append(foreign, s)
				} else if co.fh != fh {
					otherFile = append(otherFile, s)
				}
			}
		}
	}
	if len(foreign) > 0 {
		opts = append(opts, "sid_foreign_client", "sid_foreign_client")
	}
	if len(otherFile) > 0 {
		opts = append(opts, "sid_other_file", "sid_other_file")
	}
	if len(c.graveyard) > 0 {
		opts = append(opts, "sid_dead")
	}
	if w.otherFH(c, fh) != "" {
		opts = append(opts, "fh_other_file", "fh_other_file")
	}
	switch d := pick(w, "stateDev", opts); d {
	case "sid_old":
		if s := op.Stateid.Seq; w.hot(op.Stateid) {
			// Next to the wrap-around: the plain predecessor (0 for 1),
			// the one nextSeqID implies (2^32-1 for 1), or older ones.
			op.Stateid.Seq = pick(w, "oldSeqid", []uint32{s - 1, prevSeq(s), prevSeq(prevSeq(s)), prevSeq(prevSeq(prevSeq(s)))})
			w.label("old_stateid_near_the_wrap")
		} else {
			op.Stateid.Seq--
		}
		op.Note = d
	case "sid_future":
		if s := op.Stateid.Seq; w.hot(op.Stateid) {
			op.Stateid.Seq = pick(w, "futureSeqid", []uint32{s + 1, nextSeq(s), nextSeq(nextSeq(s)), nextSeq(nextSeq(nextSeq(s)))})
			w.label("future_stateid_near_the_wrap")
		} else {
			op.Stateid.Seq++
		}
		op.Note = d
	case "sid_wrong_prefix":
		op.Stateid.Other = "deadbeef" + op.Stateid.Other[8:]
		op.Note = d
	case "sid_special":
		op.Stateid = pick(w, "special", []sid{sidAnonymous, sidBypass, {Seq: 5, Other: sidAnonymous.Other}})
		op.Note = d
	case "sid_foreign_client":
		op.Stateid, op.Note = pick(w, "sid", foreign), d
	case "sid_other_file":
		op.Stateid, op.Note = pick(w, "sid", otherFile), d
	case "sid_dead":
		op.Stateid, op.Note = pick(w, "sid", c.graveyard), d
	case "fh_none":
		op.FH, op.Note = "", d
	case "fh_root":
		op.FH, op.Note = "root", d
	case "fh_other_file":
		op.FH, op.Note = w.otherFH(c, fh), d
	case "seq_future":
		*seqField = nextSeq(nextSeq(*seqField))
		op.Note = d
	case "seq_old":
		if ownerSeq > 1 {
			*seqField = ownerSeq - 1
			op.Note = d
		}
	}
}

func (w *world) genLock(c *cClient, dev bool) *opSpec {
	off, length, _ := w.drawRange()
	lt := int32(pick(w, "lt", []int{1, 2, 2, 3, 4}))
	// Existing lock state?
	existing := 60
	if w.hotLock(c) {
		existing = 90
	}
	if co, lok := w.pickLock(c); co != nil && w.pct(existing, "existing") {
		lo := c.lockOwnerByKey(lok)
		op := &opSpec{Kind: kLock, FH: co.fh, NewLO: false, LockOwner: lok, LockSeq: lo.nxt(), Stateid: co.locks[lok], LockType: lt, Offset: off, Length: length}
		if dev {
			if pick(w, "devkind", []string{"state", "range"}) == "range" {
				w.devRange(op)
			} else {
				w.devStateOp(c, op, co.fh, &op.LockSeq, lo.seq)
			}
		}
		return op
	}
	o, co := w.pickOpen(c, false)
	if co == nil {
		return nil
	}
	// Lock-owners without state on this open.
	var cands []*cLockOwner
	for _, lo := range c.lockOwner {
		if _, have := co.locks[lo.key]; have {
			continue
		}
		if !w.prof.sharedLO {
			// Soundness: one lock-owner is used with at most one open
			// per file (see ASSUMPTIONS).
			shared := false
			for _, other := range c.allOpens() {
				if other != co && other.fh == co.fh {
					if _, have := other.locks[lo.key]; have {
						shared = true
					}
				}
			}
			if shared {
				w.label("excluded_lock_owner_on_two_opens_of_one_file")
				continue
			}
		}
		cands = append(cands, lo)
	}
	if len(cands) == 0 {
		if !dev {
			return nil
		}
		cands = c.lockOwner // LOCK(new) for an owner that has state: BAD_SEQID
	}
	lo := pick(w, "lo", cands)
	if w.prof.property == "C20" && w.pct(70, "preferShared") {
		for _, x := range cands {
			for _, other := range c.allOpens() {
				if _, have := other.locks[x.key]; have && other != co && other.fh == co.fh {
					lo = x
				}
			}
		}
	}
	if w.pct(30, "preferOwnerOfOtherFile") {
		// A lock-owner that already has lock state on another file:
		// RELEASE_LOCKOWNER, lease expiry and CLOSE then meet a
		// lock-owner with several files in different states.
		for _, x := range cands {
			for _, other := range c.allOpens() {
				if _, have := other.locks[x.key]; have && other.fh != co.fh {
					lo = x
				}
			}
		}
	}
	if dev && w.pct(60, "preferUsedOwner") {
		// A lock-owner that has been used before (on another open): its
		// lock seqid is then subject to the ordering rules although the
		// request carries new_lock_owner.
		for _, x := range cands {
			if _, have := co.locks[x.key]; have || x.seq == 0 {
				continue
			}
			for _, other := range c.allOpens() {
				if _, have := other.locks[x.key]; have && other != co {
					lo = x
				}
			}
		}
	}
	op := &opSpec{Kind: kLock, FH: co.fh, NewLO: true, Owner: o.key, Seq: o.nxt(), Stateid: co.sid, LockOwner: lo.key, LockCID: c.useCID(), LockSeq: lo.nxt(), LockType: lt, Offset: off, Length: length}
	if _, have := co.locks[lo.key]; have {
		op.Note = "new_lock_owner_flag_with_existing_state"
	} else if dev {
		devkinds := []string{"state", "range", "lock_cid_mismatch", "lseq"}
		if lo.seq > 0 {
			devkinds = append(devkinds, "lseq", "lseq")
		}
		switch pick(w, "devkind", devkinds) {
		case "range":
			w.devRange(op)
		case "lock_cid_mismatch":
			w.devCID(c, op, &op.LockCID)
			if op.Note != "" {
				op.Note = "lock_cid_mismatch"
			}
		case "lseq":
			if lo.seq > 0 {
				op.LockSeq = pick(w, "lseq", []uint32{lo.seq, lo.seq + 3})
				op.Note = "lock_seq_out_of_order"
			}
		default:
			w.devStateOp(c, op, co.fh, &op.Seq, o.seq)
		}
	}
	return op
}

func (w *world) genIO(c *cClient, kind string, dev bool) *opSpec {
	op := &opSpec{Kind: kind}
	switch kind {
	case kRead:
		op.Offset = uint64(rapid.IntRange(0, 6).Draw(w.rt, "off"))
		op.Count = uint32(rapid.IntRange(0, 6).Draw(w.rt, "count"))
	case kWrite:
		op.Offset = uint64(rapid.IntRange(0, 5).Draw(w.rt, "off"))
		op.Data = pick(w, "data", []string{"x", "yz", "QRS"})
	case kSetattr:
		op.Size = uint64(rapid.IntRange(0, 6).Draw(w.rt, "size"))
	}
	if w.pct(w.prof.parkPct, "park") {
		op.Park = parkIO
	}
	if w.pctRare(w.prof.faultPct, "fault") {
		op.Fault = pick(w, "faultAt", []string{faultIO, faultIO, faultOpenSelf})
		op.FaultSt = pick(w, "faultSt", faultStatuses)
	}
	opens := c.allOpens()
	mode := pick(w, "sidKind", []string{"open", "open", "lock", "special"})
	if len(opens) == 0 {
		mode = "special"
	}
	switch mode {
	case "special":
		fh := ""
		if len(opens) > 0 && w.pct(50, "own") {
			fh = pick(w, "open", opens).fh
		} else {
			fh = w.otherFH(c, "")
		}
		if fh == "" {
			return nil
		}
		op.FH = fh
		op.Stateid = pick(w, "special", []sid{sidAnonymous, sidBypass})
		if dev {
			switch d := pick(w, "dev", []string{"special_bad_seq", "fh_root", "fh_none"}); d {
			case "special_bad_seq":
				op.Stateid.Seq, op.Note = 7, d
			case "fh_root":
				op.FH, op.Note = "root", d
			case "fh_none":
				op.FH, op.Note = "", d
			}
		}
		return op
	case "lock":
		if co, lok := w.pickLock(c); co != nil {
			op.FH, op.Stateid = co.fh, co.locks[lok]
			if dev {
				var dummy uint32
				w.devStateOp(c, op, co.fh, &dummy, 0)
				if op.Note == "seq_future" || op.Note == "seq_old" {
					op.Note = ""
				}
			}
			return op
		}
	}
	co := pick(w, "open", opens)
	op.FH, op.Stateid = co.fh, co.sid
	if dev {
		var dummy uint32
		w.devStateOp(c, op, co.fh, &dummy, 0)
		if op.Note == "seq_future" || op.Note == "seq_old" {
			op.Note = ""
		}
	}
	return op
}

// genRetx resends the previous request of an open-owner or lock-owner:
// unchanged, as a different operation under the same seqid, or with a
// different state ID.
func (w *world) genRetx(c *cClient, mode string) *opSpec {
	var cands []*opSpec
	for _, o := range c.owners {
		if o.last != nil {
			cands = append(cands, o.last)
		}
	}
	for _, lo := range c.lockOwner {
		if lo.last != nil && !lo.last.NewLO {
			cands = append(cands, lo.last)
		}
	}
	if len(cands) == 0 {
		return nil
	}
	orig := pick(w, "orig", cands)
	if mode == "same" {
		// Prefer the request of an owner whose transaction is still in
		// progress (parked inside VirtualOpenChild): the duplicate
		// then has to wait for the original and gets its reply.
		var busy []*opSpec
		for _, o := range c.owners {
			if o.last != nil && o.busy > 0 {
				busy = append(busy, o.last)
			}
		}
		if len(busy) > 0 && w.pct(w.prof.inflightRetxPct, "preferInflight") {
			orig = pick(w, "origInflight", busy)
		}
	}
	op := *orig
	op.Out, op.Park, op.N = "", "", 0
	op.Fault, op.FaultSt = "", "" // faults belong to the environment, not to the request
	op.Gate = false               // so does the moment at which it wakes up
	op.Retx = orig.N
	op.Note = "retransmission"
	switch mode {
	case "same":
		return &op
	case "diff_sid":
		switch op.Kind {
		case kOpen:
			w.label("excluded_open_same_seqid_other_arguments")
			return nil
		case kLock:
			if op.NewLO {
				return nil
			}
		}
		alt := op.Stateid
		if rapid.Bool().Draw(w.rt, "altSeq") {
			alt.Seq--
		} else {
			var others []sid
			for _, co := range c.allOpens() {
				if co.sid.Other != op.Stateid.Other {
					others = append(others, co.sid)
				}
				for _, s := range co.locks {
					if s.Other != op.Stateid.Other {
						others = append(others, s)
					}
				}
			}
			if len(others) == 0 {
				alt.Seq++
			} else {
				alt = pick(w, "sid", others)
			}
		}
		op.Stateid = alt
		op.Note = "retransmission_different_stateid"
		return &op
	case "diff_op":
		op.Note = "retransmission_different_operation"
		switch orig.Kind {
		case kOpen:
			o, co := w.pickOpen(c, false)
			if co == nil || o.key != orig.Owner {
				return nil
			}
			op = opSpec{Kind: pick(w, "kind", []string{kClose, kOpenConfirm, kOpenDowngrade}), FH: co.fh, Owner: o.key, Seq: orig.Seq, Stateid: co.sid, Access: co.access, Retx: orig.N, Note: op.Note}
			return &op
		case kClose, kOpenConfirm, kOpenDowngrade:
			alt := pick(w, "kind", []string{kClose, kOpenConfirm, kOpenDowngrade, kOpen})
			if alt == orig.Kind {
				alt = kOpen
			}
			if alt == kOpen {
				op = opSpec{Kind: kOpen, ClientID: c.useCID(), FH: "root", Owner: orig.Owner, Seq: orig.Seq, Name: pick(w, "name", fileNames), Access: 1, How: "unchecked", Retx: orig.N, Note: op.Note}
				return &op
			}
			op.Kind = alt
			op.Access = 1
			return &op
		case kLock:
			if orig.NewLO {
				op = opSpec{Kind: kClose, FH: orig.FH, Owner: orig.Owner, Seq: orig.Seq, Stateid: orig.Stateid, Retx: orig.N, Note: op.Note}
				return &op
			}
			op.Kind = kLocku
			return &op
		case kLocku:
			op.Kind = kLock
			op.NewLO = false
			return &op
		}
	}
	return nil
}

package nfs40sim

import (
	"encoding/hex"
	"fmt"
	"math"
	"sort"
	"time"

	nfsv4 "github.com/buildbarn/go-xdr/pkg/protocols/nfsv4"
)

// The reference model of the NFSv4.0 server state as RFC 7530 and the
// comments of nfs40_program.go describe it. It is deliberately naive:
// maps, slices, linear scans, a per-byte lock table over a compressed
// offset universe. It is updated only from requests, replies and the
// simulated clock.

const (
	accRead  = 1
	accWrite = 2
)

// violation is the panic value used to abort a case.
type violation struct {
	class string // property the broken oracle belongs to: C18, C19, C20
	msg   string
}

// Compressed offset universe (same shape as harness/lockset): units
// 0..15 are bytes 0..15, unit 16 is the gap, units 17..32 the 16 highest
// lockable bytes. cut(nUnits) = 2^64-1 is the largest exclusive end.
const nUnits = 33

func cut(i int) uint64 {
	if i <= 16 {
		return uint64(i)
	}
	return math.MaxUint64 - uint64(nUnits-i)
}

func unitOf(off uint64) (int, bool) {
	for i := 0; i <= nUnits; i++ {
		if cut(i) == off {
			return i, true
		}
	}
	return 0, false
}

type mLeaf struct {
	idx         int
	fh          string // hex; learned from the first GETFH
	name        string // "" once unlinked
	data        []byte
	anon        [2]int                   // special-stateid I/O in flight that holds the leaf open
	pendingOpen [2]int                   // OPENs parked after the directory opened the leaf
	locks       map[string]*[nUnits]int8 // lock table: owner key -> per unit 0 none / 1 shared / 2 exclusive
	everLocked  bool                     // a lock was granted on the file at some point
}

type mClient struct {
	longID    string
	confs     map[uint64]*mConf // by client verifier
	confirmed *mConf
}

type mConf struct {
	serial    int
	client    *mClient
	verifier  uint64
	shortID   uint64
	confirm   string
	known     bool // shortID/confirm learned
	lastSeen  time.Duration
	hold      int
	confirmed bool // is client.confirmed
	oos       map[string]*mOO
	los       map[string]*mLO
	dead      bool
}

type mLast struct {
	kind    string
	status  nfsv4.Nfsstat4
	bytes   []byte // XDR of the result operation of the first execution
	next    []byte // OPEN: XDR of the result of the operation that followed it (GETFH) in the first execution
	respSid *sid   // state ID in an OK reply of CLOSE/OPEN_CONFIRM/OPEN_DOWNGRADE/LOCK/LOCKU
	closed  *mOF
	step    int
	wrapped bool // the operation took a state ID seqid from 2^32-1 to 1
}

type mOO struct {
	conf      *mConf
	key       string
	confirmed bool
	lastSeq   uint32
	lastResp  *mLast
	files     map[*mLeaf]*mOF
	txn       bool
	waiters   int
	unused    bool
	lastUsed  time.Duration
}

type mOF struct {
	oo        *mOO
	leaf      *mLeaf
	other     string
	seq       uint32
	access    uint32
	cnt       [2]int // share count per bit: open state + lock-owner clones + in-flight I/O
	lfs       map[string]*mLF
	finalized bool
}

type mLO struct {
	conf     *mConf
	key      string
	lastSeq  uint32
	lastResp *mLast
	files    []*mLF
}

type mLF struct {
	lo     *mLO
	of     *mOF
	access uint32
	other  string
	seq    uint32
	dead   bool
}

type model struct {
	lease  time.Duration
	now    time.Duration
	prefix string // hex of the 4 byte state ID prefix
	rootFH string

	clients      map[string]*mClient
	confs        []*mConf
	nextConf     int
	ofs          []*mOF
	ofByOth      map[string]*mOF
	lfByOth      map[string]*mLF
	leaves       []*mLeaf
	names        map[string]*mLeaf
	usedOth      map[string]bool
	usedCID      map[uint64]bool
	usedFH       map[string]bool
	otherFlights int // requests in flight besides the one being evaluated
	dirMoves     int // number of successful directory mutations (create/remove)
	loggedErrors int // errors the file system must have reported to its error logger

	ev map[string]int // event labels
}

func newModel(lease time.Duration, prefix [4]byte) *model {
	return &model{
		lease:   lease,
		prefix:  hex.EncodeToString(prefix[:]),
		clients: map[string]*mClient{},
		ofByOth: map[string]*mOF{},
		lfByOth: map[string]*mLF{},
		names:   map[string]*mLeaf{},
		usedOth: map[string]bool{},
		usedCID: map[uint64]bool{},
		usedFH:  map[string]bool{},
		ev:      map[string]int{},
	}
}

func (m *model) mark(l string) { m.ev[l]++ }

func bitsOf(acc uint32) (r, w bool) { return acc&accRead != 0, acc&accWrite != 0 }

func lockKey(c *mConf, owner string) string { return fmt.Sprintf("%d/%s", c.serial, owner) }

// ---------------------------------------------------------------------
// Lookups.
// ---------------------------------------------------------------------

func (m *model) confByShort(id uint64) *mConf {
	for _, c := range m.confs {
		if c.known && c.shortID == id {
			return c
		}
	}
	return nil
}

func (m *model) confirmedByShort(id uint64) *mConf {
	c := m.confByShort(id)
	if c == nil || !c.confirmed {
		return nil
	}
	return c
}

func (m *model) inPool(l *mLeaf) bool {
	for _, of := range m.ofs {
		if of.leaf == l && !of.finalized {
			return true
		}
	}
	return false
}

func (m *model) leafByFH(fh string) *mLeaf {
	for _, l := range m.leaves {
		if l.fh != "" && l.fh == fh {
			return l
		}
	}
	return nil
}

// fhState is the current file handle of a COMPOUND after its file
// handle operation.
type fhState struct {
	kind string // none, root (parking wrapper), rootreal, leaf, stale, badhandle
	leaf *mLeaf
}

func (m *model) resolveFH(fh string) fhState {
	switch fh {
	case "":
		return fhState{kind: "none"}
	case "root":
		return fhState{kind: "root"}
	}
	if fh == m.rootFH {
		return fhState{kind: "rootreal"}
	}
	if len(fh) < 16 {
		return fhState{kind: "badhandle"}
	}
	if l := m.leafByFH(fh); l != nil && (l.name != "" || m.inPool(l)) {
		return fhState{kind: "leaf", leaf: l}
	}
	return fhState{kind: "stale"}
}

func (s fhState) isDir() bool { return s.kind == "root" || s.kind == "rootreal" }

// internalize mirrors the state ID classes of RFC 7530 section 9.1.4.3.
func (m *model) internalize(s sid, allowSpecial bool) (special bool, st nfsv4.Nfsstat4) {
	switch s.Other {
	case sidAnonymous.Other:
		if s.Seq != 0 {
			return false, nfsv4.NFS4ERR_BAD_STATEID
		}
		special = true
	case sidBypass.Other:
		if s.Seq != math.MaxUint32 {
			return false, nfsv4.NFS4ERR_BAD_STATEID
		}
		special = true
	default:
		if len(s.Other) != 24 || s.Other[:8] != m.prefix {
			return false, nfsv4.NFS4ERR_STALE_STATEID
		}
		return false, nfsv4.NFS4_OK
	}
	if !allowSpecial {
		return false, nfsv4.NFS4ERR_BAD_STATEID
	}
	return true, nfsv4.NFS4_OK
}

func cmpSeq(client, server uint32) nfsv4.Nfsstat4 {
	if client == server {
		return nfsv4.NFS4_OK
	}
	if int32(client-server) > 0 {
		return nfsv4.NFS4ERR_BAD_STATEID
	}
	return nfsv4.NFS4ERR_OLD_STATEID
}

func (m *model) getOF(s sid, fh fhState, allowUnconfirmed bool) (*mOF, nfsv4.Nfsstat4) {
	of := m.ofByOth[s.Other]
	if of == nil {
		return nil, nfsv4.NFS4ERR_BAD_STATEID
	}
	if fh.kind == "none" {
		return nil, nfsv4.NFS4ERR_NOFILEHANDLE
	}
	if of.access == 0 {
		return nil, nfsv4.NFS4ERR_BAD_STATEID
	}
	if fh.leaf != of.leaf {
		return nil, nfsv4.NFS4ERR_BAD_STATEID
	}
	if !of.oo.confirmed && !allowUnconfirmed {
		return nil, nfsv4.NFS4ERR_BAD_STATEID
	}
	if st := cmpSeq(s.Seq, of.seq); st != nfsv4.NFS4_OK {
		m.markSidMismatch(s.Seq, of.seq, st)
		return nil, st
	}
	return of, nfsv4.NFS4_OK
}

func (m *model) getLF(s sid, fh fhState) (*mLF, nfsv4.Nfsstat4) {
	lf := m.lfByOth[s.Other]
	if lf == nil {
		return nil, nfsv4.NFS4ERR_BAD_STATEID
	}
	if fh.kind == "none" {
		return nil, nfsv4.NFS4ERR_NOFILEHANDLE
	}
	if fh.leaf != lf.of.leaf {
		return nil, nfsv4.NFS4ERR_BAD_STATEID
	}
	if st := cmpSeq(s.Seq, lf.seq); st != nfsv4.NFS4_OK {
		m.markSidMismatch(s.Seq, lf.seq, st)
		return nil, st
	}
	return lf, nfsv4.NFS4_OK
}

// ---------------------------------------------------------------------
// State removal.
// ---------------------------------------------------------------------

func (m *model) ownerHolds(l *mLeaf, key string) bool {
	t := l.locks[key]
	if t == nil {
		return false
	}
	for _, v := range t {
		if v != 0 {
			return true
		}
	}
	return false
}

// dropShare removes the bits of *holder not in keep from the share
// counts of an open file.
func (m *model) dropShare(of *mOF, holder *uint32, keep uint32) {
	cleared := *holder &^ keep
	if cleared&accRead != 0 {
		of.cnt[bitRead]--
	}
	if cleared&accWrite != 0 {
		of.cnt[bitWrite]--
	}
	if of.cnt[bitRead] < 0 || of.cnt[bitWrite] < 0 {
		panic(fmt.Sprintf("harness: model share count went negative: %+v", of.cnt))
	}
	*holder = keep
}

// lfRemove removes the lock state of one lock-owner on one open file.
// With unlock set (CLOSE, RELEASE_LOCKOWNER, expiry, re-registration) the
// lock-owner's bytes on that file are freed; the lock table is keyed by
// lock-owner only, so this includes bytes the same lock-owner locked
// through another open of the same file.
func (m *model) lfRemove(lf *mLF, unlock bool) {
	if lf.dead {
		return
	}
	lf.dead = true
	key := lockKey(lf.lo.conf, lf.lo.key)
	if unlock {
		for _, x := range lf.lo.files {
			if x != lf && !x.dead && x.of.leaf == lf.of.leaf && m.ownerHolds(lf.of.leaf, key) {
				m.mark("shared_lock_owner_bytes_freed_with_one_open")
			}
		}
		delete(lf.of.leaf.locks, key)
	}
	if lf.other != "" {
		delete(m.lfByOth, lf.other)
	}
	delete(lf.of.lfs, lf.lo.key)
	m.dropShare(lf.of, &lf.access, 0)
	lo := lf.lo
	for i, x := range lo.files {
		if x == lf {
			lo.files = append(lo.files[:i], lo.files[i+1:]...)
			break
		}
	}
	if len(lo.files) == 0 {
		delete(lo.conf.los, lo.key)
	}
}

func (m *model) ofRemoveStart(of *mOF) {
	keys := make([]string, 0, len(of.lfs))
	for k := range of.lfs {
		keys = append(keys, k)
	}
	sort.Strings(keys)
	for _, k := range keys {
		m.lfRemove(of.lfs[k], true)
	}
	m.dropShare(of, &of.access, 0)
}

func (m *model) ofFinalize(of *mOF) {
	if of.finalized {
		return
	}
	of.finalized = true
	delete(of.oo.files, of.leaf)
	if of.other != "" {
		delete(m.ofByOth, of.other)
	}
	m.gcOFs()
}

// gcOFs forgets open files that are finalized and hold no share.
func (m *model) gcOFs() {
	out := m.ofs[:0]
	for _, of := range m.ofs {
		if of.finalized && of.cnt[0] == 0 && of.cnt[1] == 0 {
			continue
		}
		out = append(out, of)
	}
	m.ofs = out
	for _, l := range m.leaves {
		if len(l.locks) > 0 && !m.inPool(l) {
			l.locks = map[string]*[nUnits]int8{}
		}
	}
}

func (m *model) forgetLast(oo *mOO) {
	if lr := oo.lastResp; lr != nil {
		oo.lastResp = nil
		if lr.closed != nil {
			m.ofFinalize(lr.closed)
		}
	}
}

func (m *model) reinitOO(oo *mOO) {
	m.forgetLast(oo)
	for _, of := range m.sortedFiles(oo) {
		m.ofRemoveStart(of)
		m.ofFinalize(of)
	}
}

func (m *model) sortedFiles(oo *mOO) []*mOF {
	var l []*mOF
	for _, of := range oo.files {
		l = append(l, of)
	}
	sort.Slice(l, func(i, j int) bool { return l[i].leaf.idx < l[j].leaf.idx })
	return l
}

func (m *model) removeOO(oo *mOO) {
	m.reinitOO(oo)
	oo.unused = false
	delete(oo.conf.oos, oo.key)
}

func (m *model) removeConf(c *mConf) {
	if c.hold != 0 {
		panic("harness: model removes a held client confirmation")
	}
	if c.confirmed {
		keys := make([]string, 0, len(c.oos))
		for k := range c.oos {
			keys = append(keys, k)
		}
		sort.Strings(keys)
		for _, k := range keys {
			m.removeOO(c.oos[k])
		}
		if len(c.los) != 0 {
			panic("harness: model lock-owners survive removal of all open-owners")
		}
		c.confirmed = false
		c.client.confirmed = nil
	}
	c.dead = true
	delete(c.client.confs, c.verifier)
	for i, x := range m.confs {
		if x == c {
			m.confs = append(m.confs[:i], m.confs[i+1:]...)
			break
		}
	}
	if len(c.client.confs) == 0 {
		delete(m.clients, c.client.longID)
	}
}

// sweepWould reports whether an entering call would reclaim anything now.
func (m *model) sweepWould() bool {
	for _, c := range m.confs {
		if c.hold == 0 && c.lastSeen+m.lease < m.now {
			return true
		}
		for _, oo := range c.oos {
			if oo.unused && oo.lastUsed+m.lease < m.now {
				return true
			}
		}
	}
	return false
}

// sweep is what every call that enters the server does first: reclaim
// clients whose lease expired and open-owners unused for a lease period.
func (m *model) sweep() {
	for _, c := range append([]*mConf(nil), m.confs...) {
		if c.hold == 0 && c.lastSeen+m.lease < m.now {
			if m.hasOpenState(c) {
				m.mark("reclaim_by_expiry")
			}
			m.mark("client_expired")
			m.removeConf(c)
		}
	}
	for _, c := range m.confs {
		keys := make([]string, 0, len(c.oos))
		for k := range c.oos {
			keys = append(keys, k)
		}
		sort.Strings(keys)
		for _, k := range keys {
			oo := c.oos[k]
			if oo.unused && oo.lastUsed+m.lease < m.now {
				m.mark("open_owner_expired")
				m.removeOO(oo)
			}
		}
	}
}

func (m *model) hasOpenState(c *mConf) bool {
	for _, oo := range c.oos {
		for _, of := range oo.files {
			if of.access != 0 {
				return true
			}
		}
	}
	return false
}

func (m *model) holdConf(c *mConf) { c.hold++ }

func (m *model) releaseConf(c *mConf) {
	if c.hold <= 0 {
		panic("harness: model hold count underflow")
	}
	c.hold--
	if c.hold == 0 {
		c.lastSeen = m.now
	}
}

// isUnused: what nfs40_program.go documents about open-owners that are
// reclaimed without the client asking for it ("open-owners that no
// longer have any open files associated with them, or are unconfirmed,
// and have not been used for some time"; "no open files or are not
// confirmed"): an open-owner is unused when no transaction of it is in
// progress and it is unconfirmed or none of its files is open any more.
// A file whose CLOSE is the owner's last transaction is not open any
// more; its record only survives for the retransmission of that CLOSE.
// The period starts when the owner was last used, i.e. when its last
// transaction completed (completeTxn).
func (oo *mOO) isUnused() bool {
	if !oo.confirmed {
		return true
	}
	for _, of := range oo.files {
		if of.access != 0 {
			return false
		}
	}
	return true
}

// ---------------------------------------------------------------------
// Expected observable quantities.
// ---------------------------------------------------------------------

// held returns, per leaf and share bit, the number of holders the
// replies imply: open files whose share count for the bit is non-zero,
// special-stateid I/O in flight and OPENs parked after the directory
// opened the leaf.
func (m *model) held() [][2]int {
	out := make([][2]int, len(m.leaves))
	for _, of := range m.ofs {
		for b := 0; b < 2; b++ {
			if of.cnt[b] > 0 {
				out[of.leaf.idx][b]++
			}
		}
	}
	for _, l := range m.leaves {
		for b := 0; b < 2; b++ {
			out[l.idx][b] += l.anon[b] + l.pendingOpen[b]
		}
	}
	return out
}

func (m *model) stateCounts() map[string]int {
	c := map[string]int{
		"clients":                 len(m.clients),
		"client_confirmations":    len(m.confs),
		"client_confirmations_id": len(m.confs),
		"open_owner_files":        0,
		"lock_owner_files":        0,
	}
	for _, of := range m.ofs {
		if !of.finalized {
			c["open_owner_files"]++
		}
	}
	for _, cf := range m.confs {
		if cf.confirmed {
			c["confirmed_clients"]++
			c["open_owners"] += len(cf.oos)
			c["lock_owners"] += len(cf.los)
			for _, lo := range cf.los {
				c["lock_owner_files"] += len(lo.files)
			}
			for _, oo := range cf.oos {
				if oo.unused {
					c["unused_open_owners"]++
				}
			}
		}
		c["hold_count"] += cf.hold
		if cf.hold == 0 {
			c["idle_client_confirmations"]++
		}
	}
	return c
}

func (m *model) openedFiles() int {
	n := 0
	for _, l := range m.leaves {
		if m.inPool(l) {
			n++
		}
	}
	return n
}

package nfs40sim

import (
	"fmt"
	"testing"
	"time"
)

// Scripted cases for the two windows of window.go, run through the same
// world, reference model and oracles as the generated cases (including
// the final drain: all leases expire => no records, every file closed).

func (w *world) mustBeHeld(op *opSpec) *flight {
	fl := w.flightOf(op)
	if at := fl.ctl.where(); at != parkReenter {
		panic(fmt.Sprintf("harness: scripted waiter %d is at '%s', not held at reentry", op.N, at))
	}
	return fl
}

func (w *world) renew(c *cClient) {
	w.do(c, &opSpec{Kind: kRenew, ClientID: c.confirmed})
}

// confirmAll sends OPEN_CONFIRM for the open the owner has that asks for it.
func (w *world) confirmAll(c *cClient, o *cOwner) {
	for _, co := range o.opens {
		if co.unconf {
			w.do(c, &opSpec{Kind: kOpenConfirm, FH: co.fh, Owner: o.key, Seq: nextSeq(o.seq), Stateid: co.sid})
			return
		}
	}
}

// windowScript: the first OPEN of a new open-owner is parked inside
// VirtualOpenChild; a second request of that open-owner (what: "next_open"
// = the owner's next OPEN, of another file; "retx" = an identical
// retransmission) waits behind it and is held when it wakes up; the
// first OPEN completes (the open-owner is unconfirmed); window() runs;
// the waiter is let go; OPEN_CONFIRM for whatever the client then has.
func windowScript(t *testing.T, prof *profile, park, what string, window func(w *world, c *cClient)) {
	runScripted(t, prof, 1, func(w *world) {
		c := w.clients[0]
		w.register(c)
		o := c.owners[0]
		first := &opSpec{Kind: kOpen, ClientID: c.confirmed, FH: "root", Owner: o.key, Seq: 1, Name: "a", Access: 1, How: "unchecked", Park: park}
		w.do(c, first)
		var second *opSpec
		switch what {
		case "next_open":
			second = &opSpec{Kind: kOpen, ClientID: c.confirmed, FH: "root", Owner: o.key, Seq: 2, Name: "b", Access: 1, How: "unchecked", Gate: true}
			w.do(c, second)
		case "retx":
			second = retxOf(first)
			second.Gate = true
			w.issue(c, second)
		}
		w.release(w.flightOf(first))
		held := w.mustBeHeld(second)
		window(w, c)
		w.release(held)
		if len(w.flights) != 0 {
			panic("harness: scripted requests still in flight")
		}
		w.confirmAll(c, o)
	})
}

// More than a lease passes between the completion of the first OPEN and
// the moment the waiting OPEN reacquires the server, while the client
// keeps its lease alive with RENEW: the unconfirmed open-owner is
// forgotten (its file closed), the client is not. The waiting OPEN is
// then the first OPEN of a new open-owner; once confirmed, its file must
// be closed when the client's lease finally runs out.
func keptAlive(w *world, c *cClient) {
	w.advance(60 * time.Second)
	w.renew(c)
	w.advance(60 * time.Second)
	w.renew(c)
}

func TestC18NFS40WindowOwnerForgottenWhileNextOpenWaits(t *testing.T) {
	windowScript(t, profC18, parkOpenAfter, "next_open", keptAlive)
}

func TestC18NFS40WindowOwnerForgottenWhileNextOpenWaitsParkedBefore(t *testing.T) {
	windowScript(t, profC18, parkOpenBefore, "next_open", keptAlive)
}

func TestC18NFS40WindowOwnerForgottenWhileRetransmissionWaits(t *testing.T) {
	windowScript(t, profC18, parkOpenAfter, "retx", keptAlive)
}

// The waiter itself is the first to enter the server after the lease
// period (nobody reclaimed the open-owner before it).
func TestC18NFS40WindowWaiterReclaimsItsOwnOwner(t *testing.T) {
	windowScript(t, profC18, parkOpenAfter, "next_open", func(w *world, c *cClient) {
		w.advance(60 * time.Second)
		w.renew(c)
		w.advance(40*time.Second + 1)
	})
}

// Exactly one lease period: nothing has expired yet, the waiter finds
// the open-owner it waited for (still unconfirmed: the OPEN starts over).
func TestC18NFS40WindowExactlyOneLease(t *testing.T) {
	windowScript(t, profC18, parkOpenAfter, "next_open", func(w *world, c *cClient) {
		w.advance(60 * time.Second)
		w.renew(c)
		w.advance(40 * time.Second)
	})
}

// Nobody renews: the client's lease runs out as well; the waiter is
// told that its client ID is stale.
func TestC18NFS40WindowClientExpiresWhileWaiterHeld(t *testing.T) {
	windowScript(t, profC18, parkOpenAfter, "next_open", func(w *world, c *cClient) {
		w.advance(leaseTime + time.Second)
	})
}

// The client restarts (new verifier, confirmed) while the waiter is held.
func TestC18NFS40WindowClientReregistersWhileWaiterHeld(t *testing.T) {
	windowScript(t, profC18, parkOpenAfter, "retx", func(w *world, c *cClient) {
		c.verifier++
		w.do(c, &opSpec{Kind: kSetclientid, LongID: c.longID, Verifier: c.verifier, Note: "reregister_new_verifier"})
		w.do(c, &opSpec{Kind: kSetclientidConfirm, ClientID: c.cid, Confirm: c.confirm})
	})
}

// The first OPEN of a new open-owner sits in the file system for two
// lease periods. An open-owner is unused from the moment its transaction
// completed, not from the moment it started: the retransmission that
// arrives right after the reply must get the cached reply, and
// OPEN_CONFIRM must find the state.
func TestC19NFS40WindowSlowOpenThenRetransmissionParkedBefore(t *testing.T) {
	slowOpenThenRetransmission(t, parkOpenBefore)
}

func TestC19NFS40WindowSlowOpenThenRetransmissionParkedAfter(t *testing.T) {
	slowOpenThenRetransmission(t, parkOpenAfter)
}

func slowOpenThenRetransmission(t *testing.T, park string) {
	runScripted(t, profC19, 1, func(w *world) {
		c := w.clients[0]
		w.register(c)
		o := c.owners[0]
		first := &opSpec{Kind: kOpen, ClientID: c.confirmed, FH: "root", Owner: o.key, Seq: 7, Name: "a", Access: 3, How: "unchecked", Park: park}
		w.do(c, first)
		w.advance(2 * leaseTime)
		w.release(w.flightOf(first))
		w.issue(c, retxOf(first))
		w.advance(leaseTime)
		w.issue(c, retxOf(first))
		w.confirmAll(c, o)
	})
}

// A retransmission waits behind the slow OPEN and is held when it wakes
// up; exactly a lease period later it must still get the original's reply.
func TestC19NFS40WindowHeldRetransmissionGetsOriginalReply(t *testing.T) {
	runScripted(t, profC19, 1, func(w *world) {
		c := w.clients[0]
		w.register(c)
		o := c.owners[0]
		first := &opSpec{Kind: kOpen, ClientID: c.confirmed, FH: "root", Owner: o.key, Seq: 1, Name: "a", Access: 3, How: "unchecked", Park: parkOpenAfter}
		w.do(c, first)
		w.advance(leaseTime + time.Second)
		dup := retxOf(first)
		dup.Gate = true
		w.issue(c, dup)
		w.release(w.flightOf(first))
		held := w.mustBeHeld(dup)
		w.advance(leaseTime)
		w.release(held)
		w.confirmAll(c, o)
	})
}

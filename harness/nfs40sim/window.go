package nfs40sim

import (
	"time"

	"pgregory.net/rapid"
)

// Time passing around an OPEN that is inside the file system.
//
// OPEN is the one operation during which the NFSv4.0 program drops its
// lock (VirtualOpenChild may block), and requests of the same open-owner
// that arrive meanwhile drop it as well while they wait for the OPEN's
// transaction (waitForCurrentTransactionCompletion). Each of them takes
// the lock again through enter(), which reads the clock and reclaims
// what has expired by then. Two windows therefore exist in which the
// clock may run and other requests may be served:
//
//  1. while the OPEN is parked inside VirtualOpenChild (before or after
//     the directory acted), with or without requests waiting behind it;
//  2. after the OPEN completed and before a request that waited for it
//     has reacquired the server lock. Left alone that window is a few
//     instructions wide. The clock is the harness's, though: a waiter
//     whose gate is armed is parked inside the Now() call at the top of
//     enter() (simClock, opCtl.reentryGate) and continues when a
//     "release" step says so.
//
// reentryWindow is one generated action that walks through both windows
// with drawn choices at every point: which open-owner (preferably one
// that will be unused - unconfirmed or without open files - when the
// OPEN completes), where the OPEN parks, how much time passes while it
// is parked, which requests of the same open-owner wait behind it
// (identical retransmissions, the owner's next OPEN, its next
// CLOSE/OPEN_DOWNGRADE/OPEN_CONFIRM/LOCK), which of them are held at
// reentry, how much time passes in the second window (nothing, less than
// a lease, exactly a lease, a lease and a nanosecond, more), whether the
// client keeps its lease alive meanwhile (RENEW, or a request of another
// of its open-owners), re-registers, or stays silent, who enters the
// server first afterwards, in which order the held waiters are let go,
// and whether OPEN_CONFIRM follows. Everything is an ordinary step of
// the script (issue / advance / release), predicted by the model and
// checked by the oracles of every other step; the rest of the case,
// including other clients' requests that are parked at the time, goes on
// around it. The generic "release" action also picks held waiters, so
// windows of arbitrary generated content arise as well.

var windowParkedPlans = []string{"none", "none", "sub_lease", "exactly_lease", "lease_plus_1ns", "over_lease"}

var windowReentryPlans = []string{
	"none", "sub_lease", "exactly_lease", "lease_plus_1ns", "over_lease_silent",
	"over_lease_kept_alive", "over_lease_kept_alive", "exactly_lease_kept_alive", "two_leases_kept_alive", "reregister",
}

func (w *world) parkedFlight(op *opSpec) *flight {
	for _, fl := range w.flights {
		if fl.op == op && fl.ctl.where() != "" {
			return fl
		}
	}
	return nil
}

func (w *world) reentryWindow() bool {
	if w.inWindow || len(w.flights) > 1 {
		return false
	}
	var cands []*cClient
	for _, c := range w.clients {
		if c.vanished || c.confirmed == 0 {
			continue
		}
		for _, o := range c.owners {
			if o.busy == 0 {
				cands = append(cands, c)
				break
			}
		}
	}
	if len(cands) == 0 {
		return false
	}
	// Mostly a client whose lease has not run out behind its back (its
	// OPEN would be refused before it gets anywhere near the directory).
	var alive []*cClient
	for _, c := range cands {
		if w.m.aliveNow(c.confirmed) {
			alive = append(alive, c)
		}
	}
	if len(alive) > 0 && w.pct(90, "windowClientAlive") {
		cands = alive
	}
	w.inWindow = true
	defer func() { w.inWindow = false }()
	w.label("window")
	c := pick(w, "windowClient", cands)

	// The OPEN that gets parked.
	var free, eligible []*cOwner
	for _, o := range c.owners {
		if o.busy != 0 {
			continue
		}
		free = append(free, o)
		confirmedOpen := false
		for _, co := range o.opens {
			if !co.unconf {
				confirmedOpen = true
			}
		}
		if !confirmedOpen {
			eligible = append(eligible, o)
		}
	}
	o := pick(w, "windowOwner", free)
	if len(eligible) > 0 && w.pct(65, "ownerWithoutConfirmedOpens") {
		o = pick(w, "windowOwnerEligible", eligible)
	}
	var op1 *opSpec
	for tries := 0; tries < 3; tries++ {
		// Mostly a well-formed OPEN: an altered one is usually refused
		// before it reaches the directory.
		w.forceOwner = o
		op1 = w.genOp(c, kOpen)
		w.forceOwner = nil
		if op1 == nil {
			return true
		}
		if op1.Note == "" {
			break
		}
	}
	if op1.Claim != "" {
		// Only CLAIM_NULL goes through VirtualOpenChild.
		op1.Claim, op1.FH, op1.Stateid = "", "root", sid{}
		if op1.Name == "" {
			op1.Name = fileNames[0]
		}
	}
	op1.Park = pick(w, "windowParkAt", []string{parkOpenBefore, parkOpenAfter})
	w.noteSent(c, op1)
	w.issue(c, op1)
	fl1 := w.parkedFlight(op1)
	if fl1 == nil {
		// Rejected before it reached the directory.
		w.label("window_open_did_not_park")
		switch {
		case op1.Note != "":
			w.label("window_open_did_not_park_altered_request")
		case op1.Fault != "":
			w.label("window_open_did_not_park_fault_came_first")
		default:
			w.label("window_open_did_not_park_client_unknown_to_server")
		}
		w.followUp(c, op1)
		return true
	}

	// Window 1: the OPEN is parked. Requests the client sends without
	// waiting for the reply carry the seqids that follow.
	w.windowSeq = op1.Seq
	nWaiters := pick(w, "windowWaiters", []int{1, 1, 1, 2, 2, 0})
	advFirst := rapid.Bool().Draw(w.rt, "advanceBeforeWaiters")
	if advFirst {
		w.windowParked(c)
	}
	for i := 0; i < nWaiters && len(w.flights) < 4; i++ {
		w.windowWaiter(c, o, op1)
	}
	if !advFirst {
		w.windowParked(c)
	}
	if w.parkedFlight(op1) != fl1 {
		return true // a nested step released it
	}
	w.release(fl1)

	// Window 2: the OPEN has completed, waiters are held at reentry.
	if len(w.heldAtReentry(c, o)) > 0 {
		w.windowReentry(c)
		for {
			held := w.heldAtReentry(c, o)
			if len(held) == 0 || !w.pct(85, "letGo") {
				break
			}
			w.release(pick(w, "heldWaiter", held))
		}
	}
	if o.busy == 0 {
		for _, co := range o.opens {
			if co.unconf && w.pct(w.prof.confirmPct, "windowConfirm") {
				cf := &opSpec{Kind: kOpenConfirm, FH: co.fh, Owner: o.key, Seq: o.nxt(), Stateid: co.sid}
				w.noteSent(c, cf)
				w.issue(c, cf)
				break
			}
		}
	}
	return true
}

// heldAtReentry lists the requests of the open-owner that are held at
// the clock reading of enter().
func (w *world) heldAtReentry(c *cClient, o *cOwner) []*flight {
	var l []*flight
	for _, fl := range w.flights {
		if fl.client == c && fl.op.Owner == o.key && fl.ctl.where() == parkReenter {
			l = append(l, fl)
		}
	}
	return l
}

// windowParked lets time pass while the OPEN is inside the file system.
// The client is busy (its OPEN holds it), so its lease cannot run out;
// its other open-owners and the other clients are not protected.
func (w *world) windowParked(c *cClient) {
	plan := pick(w, "windowParkedPlan", windowParkedPlans)
	w.label("window_parked_" + plan)
	switch plan {
	case "sub_lease":
		w.advance(pick(w, "duration", []time.Duration{time.Second, 40 * time.Second, 60 * time.Second, leaseTime - 1}))
	case "exactly_lease":
		w.advance(leaseTime)
	case "lease_plus_1ns":
		w.advance(leaseTime + 1)
	case "over_lease":
		w.advance(pick(w, "duration", []time.Duration{leaseTime + time.Second, 2 * leaseTime}))
	}
	if plan != "none" && w.pct(30, "requestWhileParked") {
		w.keepAlive(c)
	}
}

// windowWaiter issues one more request of the open-owner whose OPEN is
// parked: it has to wait for that OPEN's transaction.
func (w *world) windowWaiter(c *cClient, o *cOwner, op1 *opSpec) {
	kinds := []string{"retx", "retx", "next_open", "next_open", "next_open"}
	if len(o.opens) > 0 {
		kinds = append(kinds, "next_state_op", "next_state_op")
	}
	var op *opSpec
	kind := pick(w, "windowWaiterKind", kinds)
	switch kind {
	case "retx":
		d := *op1
		d.Out, d.Park, d.N = "", "", 0
		d.Fault, d.FaultSt = "", ""
		d.Gate = false
		d.Retx, d.Note = op1.N, "retransmission"
		op = &d
	case "next_open":
		// The client does not wait for the reply and sends the owner's
		// next OPEN (the server serializes them).
		w.forceOwner = o
		op = w.genOp(c, kOpen)
		w.forceOwner = nil
		if op == nil {
			return
		}
		if op.Note != "seq_future" && op.Note != "seq_old" {
			op.Seq = nextSeq(w.windowSeq)
			w.windowSeq = op.Seq
		}
	case "next_state_op":
		co := pick(w, "windowOpen", o.opens)
		k := pick(w, "windowStateOp", []string{kClose, kOpenDowngrade, kOpenConfirm})
		op = &opSpec{Kind: k, FH: co.fh, Owner: o.key, Seq: nextSeq(w.windowSeq), Stateid: co.sid}
		w.windowSeq = op.Seq
		if k == kOpenDowngrade {
			op.Access = co.access
			if co.access == 3 {
				op.Access = uint32(pick(w, "access", []int{1, 2, 3}))
			}
		}
	}
	w.label("window_waiter_" + kind)
	if len(w.flights) >= 3 {
		op.Park = ""
	}
	if w.pct(80, "windowGate") {
		op.Gate = true
	}
	w.gateIfWaiting(op)
	if op.Retx == 0 {
		w.noteSent(c, op)
	}
	w.issue(c, op)
}

// keepAlive: the client does something that renews its lease: RENEW, or
// a request of one of its other open-owners.
func (w *world) keepAlive(c *cClient) {
	kind := pick(w, "keepAlive", []string{kRenew, kRenew, kRenew, kOpen, kLockt})
	op := w.genOp(c, kind)
	if op == nil {
		op = w.genOp(c, kRenew)
	}
	if op == nil {
		return
	}
	op.Park = ""
	w.label("window_keep_alive_" + op.Kind)
	w.gateIfWaiting(op)
	w.noteSent(c, op)
	w.issue(c, op)
	w.followUp(c, op)
}

// windowReentry: what happens between the completion of the OPEN and
// the moment the held waiters reacquire the server.
func (w *world) windowReentry(c *cClient) {
	plan := pick(w, "windowReentryPlan", windowReentryPlans)
	w.label("window_reentry_" + plan)
	switch plan {
	case "sub_lease":
		w.advance(pick(w, "duration", []time.Duration{time.Second, 40 * time.Second, 60 * time.Second, leaseTime - 1}))
	case "exactly_lease":
		w.advance(leaseTime)
	case "lease_plus_1ns":
		w.advance(leaseTime + 1)
	case "over_lease_silent":
		// Nobody renews: the client's lease runs out as well.
		w.advance(pick(w, "duration", []time.Duration{leaseTime + time.Second, 2 * leaseTime}))
	case "over_lease_kept_alive":
		// More than a lease since the OPEN completed, never more than a
		// lease between two signs of life of the client.
		w.advance(60 * time.Second)
		w.keepAlive(c)
		w.advance(pick(w, "duration", []time.Duration{40*time.Second + 1, 60 * time.Second, leaseTime}))
	case "exactly_lease_kept_alive":
		w.advance(60 * time.Second)
		w.keepAlive(c)
		w.advance(40 * time.Second)
	case "two_leases_kept_alive":
		w.advance(leaseTime)
		w.keepAlive(c)
		w.advance(leaseTime)
		w.keepAlive(c)
		w.advance(time.Second)
	case "reregister":
		// The client restarts: new verifier, confirmed.
		if w.pct(50, "timeBeforeReregistration") {
			w.advance(pick(w, "duration", []time.Duration{time.Second, 60 * time.Second, leaseTime + time.Second}))
		}
		c.verifier++
		w.noteAndIssue(c, &opSpec{Kind: kSetclientid, LongID: c.longID, Verifier: c.verifier, Note: "reregister_new_verifier"})
		w.noteAndIssue(c, &opSpec{Kind: kSetclientidConfirm, ClientID: c.cid, Confirm: c.confirm})
	}
	// Who enters the server first after that: the held waiter itself,
	// or somebody else (who then does the reclaiming).
	switch pick(w, "windowFirstToEnter", []string{"waiter", "waiter", "same_client", "anybody"}) {
	case "same_client":
		if op := w.genOp(c, kRenew); op != nil {
			w.label("window_same_client_enters_first")
			w.issue(c, op)
		}
	case "anybody":
		w.label("window_generic_step_before_reentry")
		w.step()
	}
}

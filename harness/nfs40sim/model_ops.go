package nfs40sim

import (
	"bytes"
	"encoding/hex"
	"fmt"
	"math"

	nfsv4 "github.com/buildbarn/go-xdr/pkg/protocols/nfsv4"
)

type check struct {
	class string
	fn    func(res *nfsv4.Compound4res) error
}

// outcome is the model's prediction for one (part of a) request.
type outcome struct {
	blocked string // "": completes; a park point; or "wait" (behind another transaction of the open-owner)
	sts     []nfsv4.Nfsstat4
	class   string // property that owns the status prediction
	why     string
	replay  *mLast // main result must be byte-equal to this cached reply
	pure    bool   // the request must have no side effects at all
	checks  []check
}

type inflight struct {
	op    *opSpec
	phase string
	fh    fhState
	pre   []nfsv4.Nfsstat4

	conf    *mConf
	oo      *mOO
	dirSt   nfsv4.Nfsstat4
	leaf    *mLeaf
	created bool
	reclaim bool // CLAIM_PREVIOUS
	bits    uint32

	of      *mOF
	cloned  uint32
	special bool

	waitOn *mOO
	// waited: the open-owner behind whose transaction the request waited
	// before the evaluation that is running now (labels only).
	waited *mOO

	// What the real call did (set by the world before the model runs);
	// only consulted where the specification admits two answers.
	obsBlocked string
	obsMain    nfsv4.Nfsstat4
	obsHave    bool
}

func (m *model) issue(op *opSpec) (*inflight, outcome) {
	f := &inflight{op: op, phase: "start"}
	return f, m.run(f)
}

func (m *model) run(f *inflight) outcome {
	var o outcome
	switch f.op.Kind {
	case kSetclientid:
		o = m.runSetclientid(f)
	case kSetclientidConfirm:
		o = m.runSetclientidConfirm(f)
	case kRenew:
		o = m.runRenew(f)
	case kOpen:
		o = m.runOpen(f)
	case kOpenConfirm, kOpenDowngrade, kClose:
		o = m.runOpenOwnerOp(f)
	case kLock:
		if f.op.NewLO {
			o = m.runLockNew(f)
		} else {
			o = m.runLockOwnerOp(f)
		}
	case kLocku:
		o = m.runLockOwnerOp(f)
	case kLockt:
		o = m.runLockt(f)
	case kReleaseLockowner:
		o = m.runReleaseLockowner(f)
	case kRead, kWrite, kSetattr:
		o = m.runIO(f)
	case kRemove:
		o = m.runRemove(f)
	case kLookup:
		o = m.runLookup(f)
	case kPutfh:
		o = m.runPutfh(f)
	default:
		panic("harness: model does not know op kind " + f.op.Kind)
	}
	if o.class == "" {
		o.class = "C18"
	}
	return o
}

const ok = nfsv4.NFS4_OK

// prefix evaluates the file handle operation of a step. done is true if
// the COMPOUND ends there.
func (m *model) fhPrefix(f *inflight) (done bool, o outcome) {
	f.fh = m.resolveFH(f.op.FH)
	switch f.fh.kind {
	case "none":
		f.pre = nil
	case "stale":
		return true, outcome{sts: []nfsv4.Nfsstat4{nfsv4.NFS4ERR_STALE}, pure: true, why: "file handle is neither linked nor open"}
	case "badhandle":
		return true, outcome{sts: []nfsv4.Nfsstat4{nfsv4.NFS4ERR_BADHANDLE}, pure: true, why: "file handle too short"}
	default:
		f.pre = []nfsv4.Nfsstat4{ok}
	}
	return false, outcome{}
}

func (f *inflight) fin(st nfsv4.Nfsstat4, why string) outcome {
	return outcome{sts: append(append([]nfsv4.Nfsstat4(nil), f.pre...), st), why: why}
}

func mainRes(f *inflight, res *nfsv4.Compound4res) nfsv4.NfsResop4 {
	return res.Resarray[len(f.pre)]
}

// ---------------------------------------------------------------------
// Client registration.
// ---------------------------------------------------------------------

func (m *model) runSetclientid(f *inflight) outcome {
	op := f.op
	m.sweep()
	cl := m.clients[op.LongID]
	if cl == nil {
		cl = &mClient{longID: op.LongID, confs: map[uint64]*mConf{}}
		m.clients[op.LongID] = cl
	}
	c := cl.confs[op.Verifier]
	fresh := c == nil
	if fresh {
		m.nextConf++
		c = &mConf{serial: m.nextConf, client: cl, verifier: op.Verifier, lastSeen: m.now}
		cl.confs[op.Verifier] = c
		m.confs = append(m.confs, c)
	}
	o := f.fin(ok, "SETCLIENTID always succeeds")
	o.pure = !fresh
	o.checks = append(o.checks, check{"C18", func(res *nfsv4.Compound4res) error {
		r, isOK := res.Resarray[0].(*nfsv4.NfsResop4_OP_SETCLIENTID).Opsetclientid.(*nfsv4.Setclientid4res_NFS4_OK)
		if !isOK {
			return fmt.Errorf("SETCLIENTID reply is not the OK arm")
		}
		id, conf := r.Resok4.Clientid, hex.EncodeToString(r.Resok4.SetclientidConfirm[:])
		if fresh {
			if m.usedCID[id] {
				return fmt.Errorf("SETCLIENTID for a new (client, verifier) pair returned client ID %#x, which was handed out before", id)
			}
			m.usedCID[id] = true
			c.shortID, c.confirm, c.known = id, conf, true
			return nil
		}
		if id != c.shortID || conf != c.confirm {
			return fmt.Errorf("repeated SETCLIENTID with the same verifier returned (%#x,%s), first reply was (%#x,%s)", id, conf, c.shortID, c.confirm)
		}
		return nil
	}})
	return o
}

func (m *model) runSetclientidConfirm(f *inflight) outcome {
	op := f.op
	m.sweep()
	c := m.confByShort(op.ClientID)
	if c == nil || c.confirm != op.Confirm {
		o := f.fin(nfsv4.NFS4ERR_STALE_CLIENTID, "no SETCLIENTID record with this client ID and verifier")
		o.pure = true
		return o
	}
	if c.confirmed {
		o := f.fin(ok, "already confirmed: idempotent")
		o.pure = true
		return o
	}
	m.holdConf(c)
	defer m.releaseConf(c)
	if old := c.client.confirmed; old != nil {
		if old.hold > 0 {
			m.mark("confirm_delayed_by_inflight")
			return f.fin(nfsv4.NFS4ERR_DELAY, "previous incarnation has operations in flight")
		}
		if m.hasOpenState(old) {
			m.mark("reclaim_by_reregistration")
		}
		m.mark("reregistration")
		m.removeConf(old)
	}
	c.confirmed = true
	c.client.confirmed = c
	c.oos = map[string]*mOO{}
	c.los = map[string]*mLO{}
	return f.fin(ok, "confirmed")
}

func (m *model) runRenew(f *inflight) outcome {
	m.sweep()
	c := m.confirmedByShort(f.op.ClientID)
	if c == nil {
		o := f.fin(nfsv4.NFS4ERR_STALE_CLIENTID, "client ID unknown, unconfirmed or expired")
		o.pure = true
		return o
	}
	m.holdConf(c)
	m.releaseConf(c)
	return f.fin(ok, "lease renewed")
}

// ---------------------------------------------------------------------
// Open-owner transactions.
// ---------------------------------------------------------------------

const (
	polAllow = iota
	polDeny
	polReinit
)

// startTxn mirrors RFC 7530 section 9.1.7 / 9.1.9: same seqid as the
// last request = retransmission; otherwise it must be the successor.
func (m *model) startTxn(oo *mOO, seq uint32, policy int) (*mLast, nfsv4.Nfsstat4) {
	if oo.txn {
		panic("harness: model starts a second transaction on an open-owner")
	}
	if oo.lastResp != nil && seq == oo.lastSeq {
		return oo.lastResp, nfsv4.NFS4ERR_BAD_SEQID
	}
	if oo.confirmed {
		if seq != nextSeq(oo.lastSeq) {
			return nil, nfsv4.NFS4ERR_BAD_SEQID
		}
	} else {
		switch policy {
		case polAllow:
			if seq != nextSeq(oo.lastSeq) {
				return nil, nfsv4.NFS4ERR_BAD_SEQID
			}
		case polDeny:
			return nil, nfsv4.NFS4ERR_BAD_SEQID
		case polReinit:
			if len(oo.files) > 0 {
				m.mark("unconfirmed_owner_reinitialized")
			}
			m.reinitOO(oo)
		}
	}
	m.forgetLast(oo)
	oo.txn = true
	oo.unused = false
	m.holdConf(oo.conf)
	return nil, ok
}

func (m *model) completeTxn(oo *mOO, seq uint32, last *mLast) {
	oo.txn = false
	if seqidAdvances(last.status) {
		m.markSeq("open_owner", oo.lastSeq, seq)
		oo.lastSeq = seq
		oo.lastResp = last
	}
	if oo.isUnused() {
		oo.unused = true
		oo.lastUsed = m.now
	}
	m.releaseConf(oo.conf)
}

// markSeq labels the interesting points of an owner's seqid sequence.
func (m *model) markSeq(who string, last, seq uint32) {
	if last == math.MaxUint32 && seq == 1 {
		m.mark(who + "_seqid_wrapped_skipping_zero")
	}
	if seq == 0 {
		m.mark(who + "_seqid_zero_accepted_as_first")
	}
}

// capture stores the XDR of the main result in the replay cache entry.
func capture(f *inflight, last *mLast) check {
	return check{"C19", func(res *nfsv4.Compound4res) error {
		last.bytes = encode(mainRes(f, res))
		last.next = nil
		if f.op.Kind == kOpen && len(res.Resarray) > len(f.pre)+1 {
			last.next = encode(res.Resarray[len(f.pre)+1])
		}
		return nil
	}}
}

func isNextSid(resp *sid, arg sid) bool {
	return resp != nil && resp.Other == arg.Other && resp.Seq == nextSeq(arg.Seq)
}

// replayOutcome decides what a request with the seqid of the previous
// request gets: the cached reply if it is the same kind of operation
// (and, where the implementation documents it, the same state ID),
// NFS4ERR_BAD_SEQID otherwise.
func (m *model) replayOutcome(f *inflight, last *mLast, checkSid bool) outcome {
	op := f.op
	if last.kind != op.Kind {
		o := f.fin(nfsv4.NFS4ERR_BAD_SEQID, fmt.Sprintf("seqid of the previous request (%s, step %d) reused by a different operation", last.kind, last.step))
		o.class, o.pure = "C19", true
		m.mark("same_seqid_different_operation")
		return o
	}
	if checkSid && last.status == ok && !isNextSid(last.respSid, op.Stateid) {
		o := f.fin(nfsv4.NFS4ERR_BAD_SEQID, fmt.Sprintf("seqid of the previous %s (step %d) reused with a different state ID", last.kind, last.step))
		o.class, o.pure = "C19", true
		m.mark("same_seqid_different_stateid")
		return o
	}
	o := f.fin(last.status, fmt.Sprintf("retransmission of step %d: cached reply", last.step))
	o.class, o.pure, o.replay = "C19", true, last
	m.mark("replay_" + op.Kind)
	if last.status == ok {
		m.mark("replay_ok_" + op.Kind)
	}
	if last.wrapped {
		// The cached reply carries seqid 1, the retransmitted request
		// (correctly) 2^32-1: isNextSid has to know that 1 follows 2^32-1.
		m.mark("replay_of_wrapping_operation")
		m.mark("replay_of_wrapping_operation:" + op.Kind)
	}
	return o
}

func badSeq(f *inflight, why string) outcome {
	o := f.fin(nfsv4.NFS4ERR_BAD_SEQID, why)
	o.class, o.pure = "C19", true
	return o
}

// ---------------------------------------------------------------------
// OPEN.
// ---------------------------------------------------------------------

func validName(n string) nfsv4.Nfsstat4 {
	if n == "" {
		return nfsv4.NFS4ERR_INVAL
	}
	if n == "." || n == ".." || bytes.ContainsAny([]byte(n), "/\x00") {
		return nfsv4.NFS4ERR_BADNAME
	}
	return ok
}

func (m *model) runOpen(f *inflight) outcome {
	op := f.op
	for {
		switch f.phase {
		case "start":
			if done, o := m.fhPrefix(f); done {
				return o
			}
			f.phase = "enter"
		case "enter":
			// Every time the request (re)acquires the server - at its
			// start and after each wait for a transaction of the
			// open-owner, during which the server was unlocked - it
			// starts from scratch: expired clients and unused open-owners
			// are reclaimed, then the client and the open-owner are
			// looked up (waitForCurrentTransactionCompletion: "the caller
			// should retry the lookup of the open-owner state").
			m.sweep()
			conf := m.confirmedByShort(op.ClientID)
			if conf == nil {
				if f.waited != nil {
					m.mark("waiter_reentered_client_gone")
					f.waited = nil
				}
				o := f.fin(nfsv4.NFS4ERR_STALE_CLIENTID, "client ID unknown, unconfirmed or expired")
				o.pure = true
				return o
			}
			oo := conf.oos[op.Owner]
			if f.waited != nil {
				switch {
				case oo == f.waited:
					m.mark("waiter_reentered_owner_still_there")
					if oo.unused {
						m.mark("waiter_reentered_owner_unused_not_yet_expired")
					}
				case f.waited.conf != conf:
					m.mark("waiter_reentered_client_reregistered")
				default:
					// The open-owner the request waited for was unused
					// for a lease period and has been forgotten (with its
					// files closed); the client is still there. The OPEN
					// is the first one of a new open-owner.
					m.mark("waiter_reentered_owner_collected_client_alive")
				}
				f.waited = nil
			}
			if oo != nil && oo.txn {
				f.waitOn = oo
				return outcome{blocked: "wait", why: "another transaction of this open-owner is in progress"}
			}
			f.waitOn = nil
			created := false
			if oo == nil {
				oo = &mOO{conf: conf, key: op.Owner, files: map[*mLeaf]*mOF{}}
				conf.oos[op.Owner] = oo
				created = true
			}
			last, st := m.startTxn(oo, op.Seq, polReinit)
			if st != ok {
				if last == nil {
					if created {
						panic("harness: fresh open-owner rejected a transaction")
					}
					m.mark("out_of_order_seqid")
					return badSeq(f, fmt.Sprintf("open-owner seqid %d is neither the last (%d) nor its successor", op.Seq, oo.lastSeq))
				}
				o := m.replayOutcome(f, last, false)
				if o.replay != nil && last.status == ok {
					// GETFH follows. The replay of a successful OPEN makes
					// the file that OPEN opened the current file handle
					// (opOpen: "Do the same for the replay, so that the
					// operations that follow it (e.g., GETFH) yield the
					// same results as they did the first time"), whatever
					// file handle the retransmitted COMPOUND established
					// before - also none at all (two OPENs under one seqid
					// are the same request, RFC 7530 9.1.9). The bytes of
					// the GETFH result are compared with the first reply's
					// in world.settle.
					o.sts = append(o.sts, ok)
				}
				return o
			}
			f.conf, f.oo = conf, oo
			r, w := bitsOf(op.Access)
			_, _ = r, w
			if op.Access < 1 || op.Access > 3 {
				return m.finishOpenErr(f, nfsv4.NFS4ERR_INVAL, "invalid share_access")
			}
			f.bits = op.Access
			switch op.Deny {
			case 0:
			case 1, 2, 3:
				return m.finishOpenErr(f, nfsv4.NFS4ERR_SHARE_DENIED, "share_deny is not supported")
			default:
				return m.finishOpenErr(f, nfsv4.NFS4ERR_INVAL, "invalid share_deny")
			}
			switch op.Claim {
			case "delegate_cur":
				return m.finishOpenErr(f, nfsv4.NFS4ERR_RECLAIM_BAD, "no delegations are ever handed out")
			case "delegate_prev":
				return m.finishOpenErr(f, nfsv4.NFS4ERR_NOTSUPP, "CLAIM_DELEGATE_PREV is not supported")
			case "previous", "previous_deleg":
				if f.fh.kind == "none" {
					return m.finishOpenErr(f, nfsv4.NFS4ERR_NOFILEHANDLE, "no current file handle")
				}
				if f.fh.isDir() {
					return m.finishOpenErr(f, nfsv4.NFS4ERR_ISDIR, "current file handle is a directory")
				}
				if oo.files[f.fh.leaf] == nil || op.Claim == "previous_deleg" {
					return m.finishOpenErr(f, nfsv4.NFS4ERR_RECLAIM_BAD, "the open-owner has no open state for this file (or claims a delegation)")
				}
				switch op.How {
				case "guarded", "guarded_size3", "exclusive":
					return m.finishOpenErr(f, nfsv4.NFS4ERR_EXIST, "guarded create of an existing file")
				}
				if op.Fault == faultOpenSelf {
					// The file refuses to be reopened: nothing was
					// opened, nothing may be closed or upgraded.
					m.mark("fault_fired_openself_reclaim")
					m.sweep()
					return m.finishOpenErr(f, faultNfsStatus(op.FaultSt), "injected fault: VirtualOpenSelf of the reclaimed file failed")
				}
				if op.How == "unchecked_trunc" {
					f.fh.leaf.data = nil
				}
				f.leaf, f.reclaim = f.fh.leaf, true
				if f.bits&accRead != 0 {
					f.leaf.pendingOpen[bitRead]++
				}
				if f.bits&accWrite != 0 {
					f.leaf.pendingOpen[bitWrite]++
				}
				m.mark("open_claim_previous")
				m.sweep()
				return m.finishOpenOK(f)
			}
			if f.fh.kind == "none" {
				return m.finishOpenErr(f, nfsv4.NFS4ERR_NOFILEHANDLE, "no current file handle")
			}
			if !f.fh.isDir() {
				return m.finishOpenErr(f, nfsv4.NFS4ERR_NOTDIR, "current file handle is a file")
			}
			if st := validName(op.Name); st != ok {
				return m.finishOpenErr(f, st, "bad name")
			}
			f.phase = "dir"
			if op.Park == parkOpenBefore && f.fh.kind == "root" {
				m.mark("open_parked_before_directory")
				return outcome{blocked: parkOpenBefore}
			}
		case "dir":
			viaWrapper := f.fh.kind == "root"
			if viaWrapper && op.Fault == faultDirBefore {
				// The directory fails before doing anything (and
				// before the second park point).
				m.mark("fault_fired_dir_before")
				f.dirSt = faultNfsStatus(op.FaultSt)
				f.phase = "merge"
				continue
			}
			leaf := m.names[op.Name]
			f.dirSt = ok
			switch {
			case leaf != nil:
				switch op.How {
				case "guarded", "guarded_size3", "exclusive":
					f.dirSt = nfsv4.NFS4ERR_EXIST
				default:
					if op.Fault == faultOpenSelf {
						// The existing file refuses to be opened.
						m.mark("fault_fired_openself_open")
						f.dirSt = faultNfsStatus(op.FaultSt)
					} else if op.How == "unchecked_trunc" {
						leaf.data = nil
					}
				}
			case op.How == "nocreate":
				f.dirSt = nfsv4.NFS4ERR_NOENT
			case viaWrapper && op.Fault == faultAlloc:
				// The file allocator fails: the directory logs the
				// error, reports an I/O error and stays unchanged.
				m.mark("fault_fired_alloc")
				m.loggedErrors++
				f.dirSt = nfsv4.NFS4ERR_IO
			default:
				leaf = &mLeaf{idx: len(m.leaves), name: op.Name, locks: map[string]*[nUnits]int8{}}
				if op.How == "unchecked_size3" || op.How == "guarded_size3" {
					leaf.data = make([]byte, 3)
				}
				m.leaves = append(m.leaves, leaf)
				m.names[op.Name] = leaf
				m.dirMoves++
				f.created = true
			}
			if f.dirSt == ok {
				f.leaf = leaf
				if f.bits&accRead != 0 {
					leaf.pendingOpen[bitRead]++
				}
				if f.bits&accWrite != 0 {
					leaf.pendingOpen[bitWrite]++
				}
			}
			f.phase = "merge"
			if op.Park == parkOpenAfter && f.fh.kind == "root" {
				m.mark("open_parked_after_directory")
				return outcome{blocked: parkOpenAfter}
			}
		case "merge":
			m.sweep()
			if f.dirSt != ok {
				return m.finishOpenErr(f, f.dirSt, "directory refused")
			}
			if f.fh.kind == "root" && op.Fault == faultDirAfter {
				// The directory opened (maybe created) the file, then
				// gave up and closed it again: the OPEN fails and must
				// leave no open behind; a created file stays.
				m.mark("fault_fired_dir_after")
				if f.created {
					m.mark("fault_dir_after_file_stays_created")
				}
				if f.bits&accRead != 0 {
					f.leaf.pendingOpen[bitRead]--
				}
				if f.bits&accWrite != 0 {
					f.leaf.pendingOpen[bitWrite]--
				}
				return m.finishOpenErr(f, faultNfsStatus(op.FaultSt), "injected fault: the directory failed after opening the file")
			}
			return m.finishOpenOK(f)
		default:
			panic("harness: bad OPEN phase " + f.phase)
		}
	}
}

func (m *model) finishOpenErr(f *inflight, st nfsv4.Nfsstat4, why string) outcome {
	last := &mLast{kind: kOpen, status: st, step: f.op.N}
	m.mark("open_failed_inside_transaction")
	m.completeTxn(f.oo, f.op.Seq, last)
	o := f.fin(st, why)
	o.checks = append(o.checks, capture(f, last))
	return o
}

func (m *model) finishOpenOK(f *inflight) outcome {
	op, oo, leaf := f.op, f.oo, f.leaf
	if f.bits&accRead != 0 {
		leaf.pendingOpen[bitRead]--
	}
	if f.bits&accWrite != 0 {
		leaf.pendingOpen[bitWrite]--
	}
	of := oo.files[leaf]
	isNew := of == nil
	wrapped := false
	if isNew {
		of = &mOF{oo: oo, leaf: leaf, seq: 1, lfs: map[string]*mLF{}}
		oo.files[leaf] = of
		m.ofs = append(m.ofs, of)
	} else {
		of.seq, wrapped = m.bumpSid(of.seq, kOpen)
		if f.bits&^of.access != 0 {
			m.mark("open_upgrade")
		} else {
			m.mark("open_again_same_access")
		}
	}
	if f.bits&accRead != 0 && of.access&accRead == 0 {
		of.cnt[bitRead]++
	}
	if f.bits&accWrite != 0 && of.access&accWrite == 0 {
		of.cnt[bitWrite]++
	}
	of.access |= f.bits
	needConfirm := !oo.confirmed
	wantSeq := of.seq
	last := &mLast{kind: kOpen, status: ok, step: op.N, wrapped: wrapped}
	m.completeTxn(oo, op.Seq, last)
	if leaf.name == "" {
		m.mark("open_completed_on_unlinked_file")
	}

	o := f.fin(ok, "open succeeds")
	o.sts = append(o.sts, ok) // GETFH
	created, how, reclaim := f.created, op.How, f.reclaim
	o.checks = append(o.checks, check{"C18", func(res *nfsv4.Compound4res) error {
		r, isOK := mainRes(f, res).(*nfsv4.NfsResop4_OP_OPEN).Opopen.(*nfsv4.Open4res_NFS4_OK)
		if !isOK {
			return fmt.Errorf("OPEN reply is not the OK arm")
		}
		got := sidFromWire(r.Resok4.Stateid)
		if isNew {
			if got.Other[:8] != m.prefix {
				return fmt.Errorf("new open state ID %s does not carry the server's prefix %s", got, m.prefix)
			}
			if m.usedOth[got.Other] {
				return fmt.Errorf("new open state ID %s reuses an 'other' value handed out before", got)
			}
			m.usedOth[got.Other] = true
			of.other = got.Other
			if !of.finalized {
				m.ofByOth[got.Other] = of
			}
		} else if got.Other != of.other {
			return fmt.Errorf("OPEN of an already opened file returned state ID %s, the open-owner's state for this file is %s", got, of.other)
		}
		if got.Seq != wantSeq {
			return fmt.Errorf("OPEN returned state ID seqid %d, expected %d", got.Seq, wantSeq)
		}
		wantFlags := uint32(nfsv4.OPEN4_RESULT_LOCKTYPE_POSIX)
		if needConfirm {
			wantFlags |= nfsv4.OPEN4_RESULT_CONFIRM
		}
		if r.Resok4.Rflags != wantFlags {
			return fmt.Errorf("OPEN rflags=%#x, expected %#x (needs OPEN_CONFIRM=%v)", r.Resok4.Rflags, wantFlags, needConfirm)
		}
		if reclaim {
			if r.Resok4.Cinfo.Before != r.Resok4.Cinfo.After {
				return fmt.Errorf("reclaim OPEN reports a directory change %+v", r.Resok4.Cinfo)
			}
		} else if !r.Resok4.Cinfo.Atomic || (r.Resok4.Cinfo.Before != r.Resok4.Cinfo.After) != created {
			return fmt.Errorf("OPEN change info %+v, file created=%v", r.Resok4.Cinfo, created)
		}
		wantSize := false
		if created {
			wantSize = how == "unchecked_trunc" || how == "unchecked_size3" || how == "guarded_size3"
		} else {
			wantSize = how == "unchecked_trunc"
		}
		gotSize := len(r.Resok4.Attrset) > 0 && r.Resok4.Attrset[0]&(1<<nfsv4.FATTR4_SIZE) != 0
		if gotSize != wantSize {
			return fmt.Errorf("OPEN attrset=%v, expected size bit=%v", r.Resok4.Attrset, wantSize)
		}
		if _, none := r.Resok4.Delegation.(*nfsv4.OpenDelegation4_OPEN_DELEGATE_NONE); !none {
			return fmt.Errorf("OPEN handed out a delegation")
		}
		g, isOK := res.Resarray[len(f.pre)+1].(*nfsv4.NfsResop4_OP_GETFH).Opgetfh.(*nfsv4.Getfh4res_NFS4_OK)
		if !isOK {
			return fmt.Errorf("GETFH after OPEN failed")
		}
		return m.learnFH(leaf, hex.EncodeToString(g.Resok4.Object))
	}}, capture(f, last))
	return o
}

// ---------------------------------------------------------------------
// OPEN_CONFIRM, OPEN_DOWNGRADE, CLOSE.
// ---------------------------------------------------------------------

// markReentry labels what a request that names its open-owner by an open
// state ID finds when it reacquires the server after having waited.
func (m *model) markReentry(f *inflight, of *mOF) {
	if f.waited == nil {
		return
	}
	if of == nil {
		m.mark("waiter_reentered_open_state_gone")
	} else {
		m.mark("waiter_reentered_owner_still_there")
	}
	f.waited = nil
}

func (m *model) runOpenOwnerOp(f *inflight) outcome {
	op := f.op
	if f.phase == "start" {
		if done, o := m.fhPrefix(f); done {
			return o
		}
		if _, st := m.internalize(op.Stateid, false); st != ok {
			o := f.fin(st, "state ID is special or from another server instance")
			o.pure = true
			return o
		}
		f.phase = "enter"
	}
	m.sweep()
	of0 := m.ofByOth[op.Stateid.Other]
	m.markReentry(f, of0)
	if of0 == nil {
		o := f.fin(nfsv4.NFS4ERR_BAD_STATEID, "no open state with this state ID")
		o.pure = true
		return o
	}
	oo := of0.oo
	if oo.txn {
		f.waitOn = oo
		return outcome{blocked: "wait", why: "another transaction of this open-owner is in progress"}
	}
	f.waitOn = nil
	policy := polDeny
	if op.Kind == kOpenConfirm {
		policy = polAllow
	}
	last, st := m.startTxn(oo, op.Seq, policy)
	if st != ok {
		if last == nil {
			m.mark("out_of_order_seqid")
			return badSeq(f, fmt.Sprintf("open-owner seqid %d is neither the last (%d) nor its successor (confirmed=%v)", op.Seq, oo.lastSeq, oo.confirmed))
		}
		return m.replayOutcome(f, last, true)
	}
	fail := func(st nfsv4.Nfsstat4, why string) outcome {
		last := &mLast{kind: op.Kind, status: st, step: op.N}
		m.completeTxn(oo, op.Seq, last)
		o := f.fin(st, why)
		o.checks = append(o.checks, capture(f, last))
		return o
	}
	of, st := m.getOF(op.Stateid, f.fh, op.Kind == kOpenConfirm)
	if st != ok {
		return fail(st, "state ID does not match the open state of the current file (wrong file, closed, unconfirmed, old or future seqid)")
	}
	last = &mLast{kind: op.Kind, status: ok, step: op.N}
	switch op.Kind {
	case kOpenConfirm:
		oo.confirmed = true
	case kOpenDowngrade:
		if op.Access < 1 || op.Access > 3 {
			return fail(nfsv4.NFS4ERR_INVAL, "invalid share_access")
		}
		if op.Access&^of.access != 0 || op.Deny != 0 {
			return fail(nfsv4.NFS4ERR_INVAL, "OPEN_DOWNGRADE may not add access")
		}
		if op.Access != of.access {
			m.mark("downgrade")
		}
		m.dropShare(of, &of.access, op.Access)
	case kClose:
		if len(of.lfs) > 0 {
			m.mark("close_with_lock_state")
			for _, lf := range of.lfs {
				if m.ownerHolds(of.leaf, lockKey(lf.lo.conf, lf.lo.key)) {
					m.mark("close_frees_locks")
				}
			}
		}
		if of.leaf.name == "" {
			m.mark("close_of_unlinked_file")
		}
		m.ofRemoveStart(of)
		last.closed = of
		m.mark("close")
	}
	of.seq, last.wrapped = m.bumpSid(of.seq, op.Kind)
	want := sid{Seq: of.seq, Other: of.other}
	last.respSid = &want
	m.completeTxn(oo, op.Seq, last)
	o := f.fin(ok, op.Kind+" succeeds")
	o.checks = append(o.checks, check{"C18", func(res *nfsv4.Compound4res) error {
		var got nfsv4.Stateid4
		switch r := mainRes(f, res).(type) {
		case *nfsv4.NfsResop4_OP_OPEN_CONFIRM:
			got = r.OpopenConfirm.(*nfsv4.OpenConfirm4res_NFS4_OK).Resok4.OpenStateid
		case *nfsv4.NfsResop4_OP_OPEN_DOWNGRADE:
			got = r.OpopenDowngrade.(*nfsv4.OpenDowngrade4res_NFS4_OK).Resok4.OpenStateid
		case *nfsv4.NfsResop4_OP_CLOSE:
			got = r.Opclose.(*nfsv4.Close4res_NFS4_OK).OpenStateid
		}
		if g := sidFromWire(got); g != want {
			return fmt.Errorf("%s returned state ID %s, expected %s", op.Kind, g, want)
		}
		return nil
	}}, capture(f, last))
	return o
}

// ---------------------------------------------------------------------
// Byte-range locks.
// ---------------------------------------------------------------------

// lockRange converts (offset, length) the way RFC 7530 section 16.10.4
// prescribes; units are indices into the compressed universe.
func lockRange(off, length uint64) (from, to int, st nfsv4.Nfsstat4) {
	var end uint64
	switch {
	case length == 0:
		return 0, 0, nfsv4.NFS4ERR_INVAL
	case length == ^uint64(0):
		end = ^uint64(0)
	case length > ^uint64(0)-off:
		return 0, 0, nfsv4.NFS4ERR_INVAL
	default:
		end = off + length
	}
	i, ok1 := unitOf(off)
	j, ok2 := unitOf(end)
	if !ok1 || !ok2 || i >= j {
		panic(fmt.Sprintf("harness: lock range (%d,%d) is not on unit boundaries", off, length))
	}
	return i, j, ok
}

func lockTypeOf(t int32) (int8, nfsv4.Nfsstat4) {
	switch nfsv4.NfsLockType4(t) {
	case nfsv4.READ_LT, nfsv4.READW_LT:
		return 1, ok
	case nfsv4.WRITE_LT, nfsv4.WRITEW_LT:
		return 2, ok
	}
	return 0, nfsv4.NFS4ERR_INVAL
}

func (m *model) conflict(l *mLeaf, self string, from, to int, typ int8) bool {
	for k, t := range l.locks {
		if k == self {
			continue
		}
		for u := from; u < to; u++ {
			if t[u] != 0 && (t[u] == 2 || typ == 2) {
				return true
			}
		}
	}
	return false
}

// checkDenied validates a LOCK4denied: it must name a lock that another
// owner really holds, that overlaps the request and conflicts by type.
func (m *model) checkDenied(l *mLeaf, self string, from, to int, typ int8, d *nfsv4.Lock4denied, snapshot map[string][nUnits]int8, owners map[string]string) error {
	var end uint64
	if d.Length == ^uint64(0) {
		end = ^uint64(0)
	} else {
		end = d.Offset + d.Length
	}
	a, ok1 := unitOf(d.Offset)
	b, ok2 := unitOf(end)
	if !ok1 || !ok2 || a >= b {
		return fmt.Errorf("denied reply names range (%d,%d) that no request ever locked", d.Offset, d.Length)
	}
	var dt int8
	switch d.Locktype {
	case nfsv4.READ_LT:
		dt = 1
	case nfsv4.WRITE_LT:
		dt = 2
	default:
		return fmt.Errorf("denied reply has lock type %d", d.Locktype)
	}
	key := ""
	for k, desc := range owners {
		if desc == fmt.Sprintf("%d/%s", d.Owner.Clientid, string(d.Owner.Owner)) {
			key = k
		}
	}
	if key == "" {
		return fmt.Errorf("denied reply names owner (%#x,%q) that holds no lock on the file", d.Owner.Clientid, d.Owner.Owner)
	}
	if key == self {
		return fmt.Errorf("denied reply names the requesting owner's own lock")
	}
	t := snapshot[key]
	for u := a; u < b; u++ {
		if t[u] != dt {
			return fmt.Errorf("denied reply names lock units %d..%d type %d of owner %s, which does not hold that (unit %d is %d)", a, b, dt, owners[key], u, t[u])
		}
	}
	if a >= to || b <= from {
		return fmt.Errorf("denied reply names lock units %d..%d which does not overlap the request %d..%d", a, b, from, to)
	}
	if dt != 2 && typ != 2 {
		return fmt.Errorf("denied reply names a shared lock as conflicting with a shared request")
	}
	return nil
}

func (m *model) snapshotLocks(l *mLeaf) (map[string][nUnits]int8, map[string]string) {
	snap := map[string][nUnits]int8{}
	owners := map[string]string{}
	for k, t := range l.locks {
		snap[k] = *t
	}
	for _, c := range m.confs {
		for name := range c.los {
			owners[lockKey(c, name)] = fmt.Sprintf("%d/%s", c.shortID, name)
		}
	}
	return snap, owners
}

// lockCommon applies a LOCK to the table. denied is non-nil if the
// reply must be NFS4ERR_DENIED.
func (m *model) lockCommon(lf *mLF, op *opSpec) (st nfsv4.Nfsstat4, why string, denied func(d *nfsv4.Lock4denied) error) {
	from, to, st := lockRange(op.Offset, op.Length)
	if st != ok {
		return st, "invalid lock range", nil
	}
	typ, st := lockTypeOf(op.LockType)
	if st != ok {
		return st, "invalid lock type", nil
	}
	l := lf.of.leaf
	self := lockKey(lf.lo.conf, lf.lo.key)
	if m.conflict(l, self, from, to, typ) {
		snap, owners := m.snapshotLocks(l)
		m.mark("lock_denied")
		return nfsv4.NFS4ERR_DENIED, "another owner holds a conflicting lock", func(d *nfsv4.Lock4denied) error {
			return m.checkDenied(l, self, from, to, typ, d, snap, owners)
		}
	}
	m.setLock(l, self, from, to, typ)
	if to == nUnits {
		m.mark("lock_to_max_offset")
	}
	return ok, "no conflicting lock", nil
}

func runsOf(t *[nUnits]int8) int {
	n := 0
	var prev int8
	for _, v := range t {
		if v != 0 && v != prev {
			n++
		}
		prev = v
	}
	return n
}

func (m *model) setLock(l *mLeaf, key string, from, to int, typ int8) {
	t := l.locks[key]
	if t == nil {
		if typ == 0 {
			return
		}
		t = &[nUnits]int8{}
		l.locks[key] = t
	}
	if typ != 0 {
		l.everLocked = true
	}
	before := runsOf(t)
	for u := from; u < to; u++ {
		t[u] = typ
	}
	after := runsOf(t)
	if typ != 0 && after-before != 1 {
		m.mark("lock_split_or_merge")
	}
	if typ == 0 && after > before {
		m.mark("lock_split_or_merge")
	}
	holders := 0
	for _, x := range l.locks {
		if runsOf(x) > 0 {
			holders++
		}
	}
	if holders >= 2 {
		m.mark("two_lock_owners_hold")
	}
	if runsOf(t) == 0 {
		delete(l.locks, key)
	}
}

func lockReplyChecks(f *inflight, wantSid *sid, denied func(*nfsv4.Lock4denied) error) check {
	return check{"C20", func(res *nfsv4.Compound4res) error {
		switch r := mainRes(f, res).(*nfsv4.NfsResop4_OP_LOCK).Oplock.(type) {
		case *nfsv4.Lock4res_NFS4_OK:
			if wantSid != nil {
				if g := sidFromWire(r.Resok4.LockStateid); g != *wantSid {
					return fmt.Errorf("LOCK returned state ID %s, expected %s", g, *wantSid)
				}
			}
		case *nfsv4.Lock4res_NFS4ERR_DENIED:
			if denied != nil {
				return denied(&r.Denied)
			}
		}
		return nil
	}}
}

func (m *model) runLockNew(f *inflight) outcome {
	op := f.op
	if f.phase == "start" {
		if done, o := m.fhPrefix(f); done {
			return o
		}
		f.phase = "enter"
	}
	m.sweep()
	if _, st := m.internalize(op.Stateid, false); st != ok {
		o := f.fin(st, "open state ID is special or from another server instance")
		o.pure = true
		return o
	}
	of0 := m.ofByOth[op.Stateid.Other]
	m.markReentry(f, of0)
	if of0 == nil {
		o := f.fin(nfsv4.NFS4ERR_BAD_STATEID, "no open state with this state ID")
		o.pure = true
		return o
	}
	oo := of0.oo
	if oo.txn {
		f.waitOn = oo
		return outcome{blocked: "wait", why: "another transaction of this open-owner is in progress"}
	}
	f.waitOn = nil
	last, st := m.startTxn(oo, op.Seq, polDeny)
	if st != ok {
		if last == nil {
			m.mark("out_of_order_seqid")
			return badSeq(f, fmt.Sprintf("open-owner seqid %d is neither the last (%d) nor its successor (confirmed=%v)", op.Seq, oo.lastSeq, oo.confirmed))
		}
		return m.replayOutcome(f, last, false)
	}
	conf := oo.conf
	finish := func(st nfsv4.Nfsstat4, why string, cached *mLast, extra ...check) outcome {
		last := &mLast{kind: kLock, status: st, step: op.N}
		m.completeTxn(oo, op.Seq, last)
		o := f.fin(st, why)
		if cached != nil {
			o.replay = cached
			o.class = "C19"
		}
		o.checks = append(o.checks, extra...)
		o.checks = append(o.checks, capture(f, last))
		return o
	}
	of, st := m.getOF(op.Stateid, f.fh, false)
	if st != ok {
		return finish(st, "open state ID does not match the open state of the current file", nil)
	}
	if op.LockCID != conf.shortID {
		return finish(nfsv4.NFS4ERR_INVAL, "lock-owner's client ID differs from the open-owner's", nil)
	}
	lo := conf.los[op.LockOwner]
	initial := lo == nil
	if initial {
		lo = &mLO{conf: conf, key: op.LockOwner}
		conf.los[op.LockOwner] = lo
	} else if of.lfs[lo.key] != nil {
		o := finish(nfsv4.NFS4ERR_BAD_SEQID, "lock-owner already has lock state for this open file: LOCK must use the lock state ID", nil)
		o.class = "C19"
		return o
	}
	if lo.lastResp != nil && op.LockSeq == lo.lastSeq {
		if lo.lastResp.kind == kLock {
			m.mark("lock_owner_replay_through_new_open")
			if lo.lastResp.wrapped {
				m.mark("replay_of_wrapping_operation")
				m.mark("replay_of_wrapping_operation:" + kLock)
			}
			return finish(lo.lastResp.status, "lock-owner seqid equals its last one: cached LOCK reply", lo.lastResp)
		}
		o := finish(nfsv4.NFS4ERR_BAD_SEQID, "lock-owner seqid of its previous LOCKU reused by LOCK", nil)
		o.class = "C19"
		return o
	}
	if !initial && op.LockSeq != nextSeq(lo.lastSeq) {
		m.mark("out_of_order_seqid")
		m.mark("out_of_order_lock_seqid_with_new_lock_owner_flag")
		o := finish(nfsv4.NFS4ERR_BAD_SEQID, fmt.Sprintf("lock-owner seqid %d is neither the last (%d) nor its successor", op.LockSeq, lo.lastSeq), nil)
		o.class = "C19"
		return o
	}
	lo.lastResp = nil
	m.holdConf(conf)
	lf := &mLF{lo: lo, of: of, access: of.access}
	for _, x := range lo.files {
		if x.of.leaf == of.leaf {
			m.mark("lock_owner_on_two_opens_of_one_file")
		}
	}
	if lf.access&accRead != 0 {
		of.cnt[bitRead]++
	}
	if lf.access&accWrite != 0 {
		of.cnt[bitWrite]++
	}
	of.lfs[lo.key] = lf
	lo.files = append(lo.files, lf)
	st, why, denied := m.lockCommon(lf, op)
	loLast := &mLast{kind: kLock, status: st, step: op.N}
	var want *sid
	if st == ok {
		lf.seq = 1
		m.mark("lock_owner_cloned_share")
		m.mark("lock_granted")
	}
	if seqidAdvances(st) {
		m.markSeq("lock_owner", lo.lastSeq, op.LockSeq)
		lo.lastSeq = op.LockSeq
		lo.lastResp = loLast
	}
	m.releaseConf(conf)
	if st != ok {
		m.lfRemove(lf, false)
	}
	o := finish(st, why, nil, check{"C20", func(res *nfsv4.Compound4res) error {
		if r, isOK := mainRes(f, res).(*nfsv4.NfsResop4_OP_LOCK).Oplock.(*nfsv4.Lock4res_NFS4_OK); isOK && st == ok {
			got := sidFromWire(r.Resok4.LockStateid)
			if got.Other[:8] != m.prefix || m.usedOth[got.Other] {
				return fmt.Errorf("new lock state ID %s has a foreign prefix or reuses an 'other' value", got)
			}
			m.usedOth[got.Other] = true
			lf.other = got.Other
			if !lf.dead {
				m.lfByOth[got.Other] = lf
			}
			if got.Seq != 1 {
				return fmt.Errorf("new lock state ID has seqid %d, expected 1", got.Seq)
			}
			s := got
			loLast.respSid = &s
			_ = want
		}
		return nil
	}}, lockReplyChecks(f, nil, denied), capture(f, loLast))
	if st == nfsv4.NFS4ERR_DENIED || st == ok || st == nfsv4.NFS4ERR_INVAL {
		o.class = "C20" // INVAL here: bad range or lock type
	}
	return o
}

// runLockOwnerOp handles LOCK with an existing lock-owner and LOCKU.
func (m *model) runLockOwnerOp(f *inflight) outcome {
	op := f.op
	if done, o := m.fhPrefix(f); done {
		return o
	}
	m.sweep()
	if _, st := m.internalize(op.Stateid, false); st != ok {
		o := f.fin(st, "lock state ID is special or from another server instance")
		o.pure = true
		return o
	}
	lf0 := m.lfByOth[op.Stateid.Other]
	if lf0 == nil {
		o := f.fin(nfsv4.NFS4ERR_BAD_STATEID, "no lock state with this state ID")
		o.pure = true
		return o
	}
	lo := lf0.lo
	if lo.lastResp != nil && op.LockSeq == lo.lastSeq {
		return m.replayOutcome(f, lo.lastResp, true)
	}
	if op.LockSeq != nextSeq(lo.lastSeq) {
		m.mark("out_of_order_seqid")
		return badSeq(f, fmt.Sprintf("lock-owner seqid %d is neither the last (%d) nor its successor", op.LockSeq, lo.lastSeq))
	}
	lo.lastResp = nil
	conf := lo.conf
	m.holdConf(conf)
	last := &mLast{kind: op.Kind, step: op.N}
	finish := func(st nfsv4.Nfsstat4, why string, extra ...check) outcome {
		last.status = st
		if seqidAdvances(st) {
			m.markSeq("lock_owner", lo.lastSeq, op.LockSeq)
			lo.lastSeq = op.LockSeq
			lo.lastResp = last
		}
		m.releaseConf(conf)
		o := f.fin(st, why)
		o.checks = append(o.checks, extra...)
		o.checks = append(o.checks, capture(f, last))
		return o
	}
	lf, st := m.getLF(op.Stateid, f.fh)
	if st != ok {
		return finish(st, "lock state ID does not match the lock state of the current file (wrong file, old or future seqid)")
	}
	if op.Kind == kLocku {
		from, to, st := lockRange(op.Offset, op.Length)
		if st != ok {
			o := finish(st, "invalid lock range")
			o.class = "C20"
			return o
		}
		key := lockKey(conf, lo.key)
		if m.ownerHolds(lf.of.leaf, key) {
			m.mark("unlock_of_held_range")
		}
		m.setLock(lf.of.leaf, key, from, to, 0)
		lf.seq, last.wrapped = m.bumpSid(lf.seq, kLocku)
		want := sid{Seq: lf.seq, Other: lf.other}
		last.respSid = &want
		o := finish(ok, "LOCKU always succeeds", check{"C20", func(res *nfsv4.Compound4res) error {
			r := mainRes(f, res).(*nfsv4.NfsResop4_OP_LOCKU).Oplocku.(*nfsv4.Locku4res_NFS4_OK)
			if g := sidFromWire(r.LockStateid); g != want {
				return fmt.Errorf("LOCKU returned state ID %s, expected %s", g, want)
			}
			return nil
		}})
		o.class = "C20"
		return o
	}
	st, why, denied := m.lockCommon(lf, op)
	var want *sid
	if st == ok {
		lf.seq, last.wrapped = m.bumpSid(lf.seq, kLock)
		want = &sid{Seq: lf.seq, Other: lf.other}
		last.respSid = want
		m.mark("lock_granted")
	}
	o := finish(st, why, lockReplyChecks(f, want, denied))
	if st == nfsv4.NFS4ERR_DENIED || st == ok || st == nfsv4.NFS4ERR_INVAL {
		o.class = "C20"
	}
	return o
}

func (m *model) runLockt(f *inflight) outcome {
	op := f.op
	if done, o := m.fhPrefix(f); done {
		return o
	}
	if f.fh.kind == "none" {
		o := f.fin(nfsv4.NFS4ERR_NOFILEHANDLE, "no current file handle")
		o.pure = true
		return o
	}
	if f.fh.isDir() {
		o := f.fin(nfsv4.NFS4ERR_ISDIR, "LOCKT on a directory")
		o.pure = true
		return o
	}
	m.sweep()
	conf := m.confirmedByShort(op.LockCID)
	if conf == nil {
		o := f.fin(nfsv4.NFS4ERR_STALE_CLIENTID, "client ID unknown, unconfirmed or expired")
		o.pure = true
		return o
	}
	m.holdConf(conf)
	m.releaseConf(conf)
	from, to, st := lockRange(op.Offset, op.Length)
	if st != ok {
		o := f.fin(st, "invalid lock range")
		o.class = "C20"
		return o
	}
	typ, st := lockTypeOf(op.LockType)
	if st != ok {
		o := f.fin(st, "invalid lock type")
		o.class = "C20"
		return o
	}
	l := f.fh.leaf
	self := "<none>"
	if conf.los[op.LockOwner] != nil {
		self = lockKey(conf, op.LockOwner)
	}
	if m.inPool(l) && m.conflict(l, self, from, to, typ) {
		snap, owners := m.snapshotLocks(l)
		m.mark("lockt_conflict")
		o := f.fin(nfsv4.NFS4ERR_DENIED, "another owner holds a conflicting lock")
		o.class = "C20"
		o.checks = append(o.checks, check{"C20", func(res *nfsv4.Compound4res) error {
			r := mainRes(f, res).(*nfsv4.NfsResop4_OP_LOCKT).Oplockt.(*nfsv4.Lockt4res_NFS4ERR_DENIED)
			return m.checkDenied(l, self, from, to, typ, &r.Denied, snap, owners)
		}})
		return o
	}
	if m.ownerHolds(l, self) {
		m.mark("lockt_own_locks_no_conflict")
	}
	o := f.fin(ok, "no other owner holds a conflicting lock")
	o.class = "C20"
	return o
}

func (m *model) runReleaseLockowner(f *inflight) outcome {
	op := f.op
	m.sweep()
	conf := m.confirmedByShort(op.LockCID)
	if conf == nil {
		o := f.fin(nfsv4.NFS4ERR_STALE_CLIENTID, "client ID unknown, unconfirmed or expired")
		o.pure = true
		return o
	}
	m.holdConf(conf)
	defer m.releaseConf(conf)
	lo := conf.los[op.LockOwner]
	if lo == nil {
		return f.fin(ok, "unknown lock-owner: nothing to release")
	}
	m.mark(fmt.Sprintf("release_lockowner_with_%d_files", len(lo.files)))
	for _, lf := range lo.files {
		if m.ownerHolds(lf.of.leaf, lockKey(conf, lo.key)) {
			m.mark("locks_held")
			o := f.fin(nfsv4.NFS4ERR_LOCKS_HELD, "lock-owner still holds bytes")
			o.class = "C20"
			// A refused RELEASE_LOCKOWNER releases nothing: the
			// lock-owner files that hold no bytes stay as well.
			o.pure = true
			if len(lo.files) > 1 {
				m.mark("release_lockowner_refused_with_several_files")
				for _, other := range lo.files {
					if !m.ownerHolds(other.of.leaf, lockKey(conf, lo.key)) {
						m.mark("release_lockowner_refused_while_one_file_holds_nothing")
						break
					}
				}
			}
			return o
		}
	}
	for len(lo.files) > 0 {
		m.lfRemove(lo.files[len(lo.files)-1], true)
	}
	m.mark("lock_owner_released")
	o := f.fin(ok, "lock-owner holds no bytes: state released")
	o.class = "C20"
	return o
}

// ---------------------------------------------------------------------
// READ, WRITE, SETATTR(size).
// ---------------------------------------------------------------------

func (m *model) runIO(f *inflight) outcome {
	op := f.op
	need := uint32(accWrite)
	bit := bitWrite
	if op.Kind == kRead {
		need, bit = accRead, bitRead
	}
	for {
		switch f.phase {
		case "start":
			if done, o := m.fhPrefix(f); done {
				return o
			}
			special, st := m.internalize(op.Stateid, true)
			if st != ok {
				o := f.fin(st, "malformed special state ID or state ID of another server instance")
				o.pure = true
				return o
			}
			f.special = special
			if special {
				if f.fh.kind == "none" {
					o := f.fin(nfsv4.NFS4ERR_NOFILEHANDLE, "no current file handle")
					o.pure = true
					return o
				}
				if f.fh.isDir() {
					st := nfsv4.NFS4ERR_ISDIR
					if op.Kind == kSetattr {
						st = nfsv4.NFS4ERR_INVAL
					}
					o := f.fin(st, "directory")
					o.pure = true
					return o
				}
				f.leaf = f.fh.leaf
				if op.Kind != kSetattr && op.Fault == faultOpenSelf {
					// The temporary open for the anonymous I/O fails.
					m.mark("fault_fired_openself_io")
					o := f.fin(faultNfsStatus(op.FaultSt), "injected fault: VirtualOpenSelf for I/O with a special state ID failed")
					o.pure = true
					return o
				}
				if op.Kind != kSetattr && m.deadLeaf(f, f.leaf) {
					// Unlinked and no longer opened by anyone: only the
					// not yet finalized CLOSE keeps the handle resolvable.
					o := f.fin(nfsv4.NFS4ERR_STALE, "file is unlinked and closed")
					o.pure = true
					return o
				}
				if op.Kind != kSetattr {
					f.leaf.anon[bit]++
					m.mark("io_special_stateid")
				}
			} else {
				m.sweep()
				of, st := m.getOF(op.Stateid, f.fh, false)
				switch st {
				case ok:
					if need&^of.access != 0 {
						return f.fin(nfsv4.NFS4ERR_OPENMODE, "open state lacks the access the operation needs")
					}
					m.mark("io_open_stateid")
				case nfsv4.NFS4ERR_BAD_STATEID:
					lf, st := m.getLF(op.Stateid, f.fh)
					if st != ok {
						o := f.fin(st, "state ID matches neither an open nor a lock state of the current file")
						o.pure = true
						return o
					}
					of = lf.of
					if need&^lf.access != 0 {
						return f.fin(nfsv4.NFS4ERR_OPENMODE, "lock state was created while the open lacked the access the operation needs")
					}
					m.mark("io_lock_stateid")
				default:
					o := f.fin(st, "state ID rejected")
					o.pure = true
					return o
				}
				f.of, f.conf, f.leaf = of, of.oo.conf, of.leaf
				m.holdConf(f.conf)
				f.cloned = need
				of.cnt[bit]++
			}
			f.phase = "io"
			if op.Park == parkIO {
				m.mark("io_parked")
				return outcome{blocked: parkIO}
			}
		case "io":
			l := f.leaf
			var chk check
			if op.Fault == faultIO {
				// The leaf fails the operation; the share the request
				// held (clone or temporary open) must still be released.
				m.mark("fault_fired_io")
				if f.special {
					if op.Kind != kSetattr {
						l.anon[bit]--
					}
				} else {
					m.sweep()
					m.dropShare(f.of, &f.cloned, 0)
					m.releaseConf(f.conf)
					m.gcOFs()
				}
				return f.fin(faultNfsStatus(op.FaultSt), "injected fault: the file failed the I/O")
			}
			if f.special && op.Kind == kSetattr {
				if m.deadLeaf(f, l) {
					m.mark("setattr_on_file_that_died_while_parked")
					return f.fin(nfsv4.NFS4ERR_STALE, "file was unlinked and closed before the attributes were set")
				}
			}
			switch op.Kind {
			case kRead:
				var want []byte
				eof := true
				if op.Offset < uint64(len(l.data)) {
					rem := uint64(len(l.data)) - op.Offset
					if uint64(op.Count) >= rem {
						want = append([]byte(nil), l.data[op.Offset:]...)
					} else {
						want = append([]byte(nil), l.data[op.Offset:op.Offset+uint64(op.Count)]...)
						eof = false
					}
				}
				chk = check{"C18", func(res *nfsv4.Compound4res) error {
					r := mainRes(f, res).(*nfsv4.NfsResop4_OP_READ).Opread.(*nfsv4.Read4res_NFS4_OK)
					if !bytes.Equal(r.Resok4.Data, want) || r.Resok4.Eof != eof {
						return fmt.Errorf("READ returned %q eof=%v, the file's contents imply %q eof=%v", r.Resok4.Data, r.Resok4.Eof, want, eof)
					}
					return nil
				}}
			case kWrite:
				if end := int(op.Offset) + len(op.Data); end > len(l.data) {
					l.data = append(l.data, make([]byte, end-len(l.data))...)
				}
				copy(l.data[op.Offset:], op.Data)
				n := len(op.Data)
				chk = check{"C18", func(res *nfsv4.Compound4res) error {
					r := mainRes(f, res).(*nfsv4.NfsResop4_OP_WRITE).Opwrite.(*nfsv4.Write4res_NFS4_OK)
					if int(r.Resok4.Count) != n {
						return fmt.Errorf("WRITE of %d bytes reported %d", n, r.Resok4.Count)
					}
					return nil
				}}
			case kSetattr:
				if int(op.Size) <= len(l.data) {
					l.data = l.data[:op.Size]
				} else {
					l.data = append(l.data, make([]byte, int(op.Size)-len(l.data))...)
				}
				chk = check{"C18", func(res *nfsv4.Compound4res) error { return nil }}
			}
			if f.special {
				if op.Kind != kSetattr {
					l.anon[bit]--
				}
			} else {
				m.sweep()
				m.dropShare(f.of, &f.cloned, 0)
				m.releaseConf(f.conf)
				m.gcOFs()
			}
			o := f.fin(ok, "I/O permitted")
			o.checks = append(o.checks, chk)
			return o
		default:
			panic("harness: bad I/O phase " + f.phase)
		}
	}
}

// deadLeaf reports whether a file is unlinked and no longer held open.
// While other requests are in flight the server may still hold the file
// open for a moment (closes are carried out when a request returns), so
// then both answers are accepted and the model follows the server.
func (m *model) deadLeaf(f *inflight, l *mLeaf) bool {
	h := m.held()[l.idx]
	if l.name != "" || h[0]+h[1] != 0 {
		return false
	}
	if m.otherFlights > 0 && f.obsHave {
		m.mark("dead_file_probe_while_requests_in_flight")
		if f.obsBlocked != "" {
			return false
		}
		return f.obsMain == nfsv4.NFS4ERR_STALE
	}
	return true
}

// ---------------------------------------------------------------------
// Namespace operations.
// ---------------------------------------------------------------------

func (m *model) runRemove(f *inflight) outcome {
	op := f.op
	f.pre = []nfsv4.Nfsstat4{ok}
	if st := validName(op.Name); st != ok {
		o := f.fin(st, "bad name")
		o.pure = true
		return o
	}
	l := m.names[op.Name]
	if l == nil {
		o := f.fin(nfsv4.NFS4ERR_NOENT, "no such file")
		o.pure = true
		return o
	}
	delete(m.names, op.Name)
	l.name = ""
	m.dirMoves++
	if m.inPool(l) {
		m.mark("unlink_open_file")
	}
	m.gcOFs()
	return f.fin(ok, "removed")
}

func (m *model) learnFH(leaf *mLeaf, fh string) error {
	if leaf.fh == "" {
		if m.usedFH[fh] || fh == m.rootFH {
			return fmt.Errorf("new file got file handle %s, which was used before", fh)
		}
		m.usedFH[fh] = true
		leaf.fh = fh
	} else if fh != leaf.fh {
		return fmt.Errorf("GETFH returned %s, the file's handle is %s", fh, leaf.fh)
	}
	return nil
}

func (m *model) getfhCheck(idx int, leaf *mLeaf) check {
	return check{"C18", func(res *nfsv4.Compound4res) error {
		g, isOK := res.Resarray[idx].(*nfsv4.NfsResop4_OP_GETFH).Opgetfh.(*nfsv4.Getfh4res_NFS4_OK)
		if !isOK {
			return fmt.Errorf("GETFH failed")
		}
		return m.learnFH(leaf, hex.EncodeToString(g.Resok4.Object))
	}}
}

func (m *model) runLookup(f *inflight) outcome {
	op := f.op
	f.pre = []nfsv4.Nfsstat4{ok}
	l := m.names[op.Name]
	if l == nil {
		o := f.fin(nfsv4.NFS4ERR_NOENT, "no such file")
		o.pure = true
		return o
	}
	o := f.fin(ok, "found")
	o.sts = append(o.sts, ok)
	o.pure = true
	o.checks = append(o.checks, m.getfhCheck(2, l))
	return o
}

func (m *model) runPutfh(f *inflight) outcome {
	if done, o := m.fhPrefix(f); done {
		if f.fh.kind == "stale" {
			if l := m.leafByFH(f.op.FH); l != nil {
				m.mark("putfh_stale_after_unlink_and_close")
			}
		}
		return o
	}
	var o outcome
	switch f.fh.kind {
	case "none":
		o = f.fin(nfsv4.NFS4ERR_NOFILEHANDLE, "no current file handle")
	default:
		o = f.fin(ok, "resolvable")
		if f.fh.kind == "leaf" {
			l := f.fh.leaf
			if l.name == "" {
				m.mark("putfh_unlinked_open_file")
			}
			o.checks = append(o.checks, m.getfhCheck(1, l))
		}
	}
	o.pure = true
	return o
}

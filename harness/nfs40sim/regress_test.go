package nfs40sim

import (
	"fmt"
	"os"
	"runtime/debug"
	"testing"
	"testing/synctest"

	"verif/harness/internal/simkit"
)

// Scripted regressions: fixed request sequences run through the same
// world, model and oracles as the generated cases.

func runScripted(t *testing.T, prof *profile, nClients int, body func(w *world)) {
	var failure string
	var w *world
	synctest.Test(t, func(st *testing.T) {
		defer func() {
			if r := recover(); r != nil {
				if v, isV := r.(violation); isV {
					failure = fmt.Sprintf("[%s] %s", v.class, v.msg)
				} else {
					failure = fmt.Sprintf("panic: %v\n%s", r, debug.Stack())
				}
			}
			if w != nil {
				w.unparkAll()
			}
		}()
		w = newWorld(nil, prof, nClients)
		body(w)
		w.finish()
	})
	rec := simkit.NewRecorder(t, prof.property, "nfs40_regress_"+t.Name(), "scripted regression of a shrunk generated failure, run through the same world, reference model and oracles as the generated cases")
	if failure == "" {
		rec.Case(w.script, true, "regression")
		if os.Getenv("VERIF_SHOW_SCRIPT") != "" {
			t.Logf("script:\n%s", w.script1())
		}
	}
	if failure != "" {
		t.Fatalf("VERIF-VIOLATION property=%s: %s\nscript:\n%s", prof.property, failure, w.script1())
	}
}

func (w *world) do(c *cClient, op *opSpec) {
	w.noteSent(c, op)
	w.issue(c, op)
}

func (w *world) register(c *cClient) {
	w.do(c, &opSpec{Kind: kSetclientid, LongID: c.longID, Verifier: c.verifier})
	w.do(c, &opSpec{Kind: kSetclientidConfirm, ClientID: c.cid, Confirm: c.confirm})
}

// openConfirmed opens name through open-owner k and confirms if asked to.
func (w *world) openConfirmed(c *cClient, k int, name string, access uint32) *cOpen {
	o := c.owners[k]
	w.do(c, &opSpec{Kind: kOpen, ClientID: c.confirmed, FH: "root", Owner: o.key, Seq: nextSeq(o.seq), Name: name, Access: access, How: "unchecked"})
	for _, co := range o.opens {
		if co.name == name {
			if co.unconf {
				w.do(c, &opSpec{Kind: kOpenConfirm, FH: co.fh, Owner: o.key, Seq: nextSeq(o.seq), Stateid: co.sid})
			}
			return co
		}
	}
	panic("harness: scripted open failed")
}

func (w *world) lockNew(c *cClient, k int, co *cOpen, lk int, lt int32, from, to int) {
	o, lo := c.owners[k], c.lockOwner[lk]
	w.do(c, &opSpec{Kind: kLock, FH: co.fh, NewLO: true, Owner: o.key, Seq: nextSeq(o.seq), Stateid: co.sid, LockOwner: lo.key, LockCID: c.confirmed, LockSeq: nextSeq(lo.seq), LockType: lt, Offset: cut(from), Length: cut(to) - cut(from)})
}

// One lock-owner takes locks on one file through the opens of two
// open-owners (legal: RFC 7530 16.10.5 keys lock state by open file and
// lock-owner); closing one of the opens, or letting the lease expire,
// must not bring the server down, and LOCKT by the owner never conflicts
// with its own locks.
func TestC20NFS40RegressSharedLockOwnerClose(t *testing.T) {
	runScripted(t, profC20, 1, func(w *world) {
		c := w.clients[0]
		w.register(c)
		a0 := w.openConfirmed(c, 0, "a", 3)
		a1 := w.openConfirmed(c, 1, "a", 3)
		w.lockNew(c, 0, a0, 0, 2, 0, 1)
		w.lockNew(c, 1, a1, 0, 2, 5, 6)
		w.do(c, &opSpec{Kind: kLockt, FH: a0.fh, LockCID: c.confirmed, LockOwner: c.lockOwner[0].key, LockType: 2, Offset: 0, Length: 10})
		o := c.owners[0]
		w.do(c, &opSpec{Kind: kClose, FH: a0.fh, Owner: o.key, Seq: nextSeq(o.seq), Stateid: a0.sid})
	})
}

func TestC20NFS40RegressSharedLockOwnerExpiry(t *testing.T) {
	runScripted(t, profC20, 1, func(w *world) {
		c := w.clients[0]
		w.register(c)
		a0 := w.openConfirmed(c, 0, "a", 3)
		a1 := w.openConfirmed(c, 1, "a", 3)
		w.lockNew(c, 0, a0, 0, 2, 0, 1)
		w.lockNew(c, 1, a1, 0, 2, 5, 6)
	})
}

// The lock-owner's ranges taken through two opens merge; unlocking
// through the second open must not drive a per-open lock count negative.
func TestC20NFS40RegressSharedLockOwnerMerge(t *testing.T) {
	runScripted(t, profC20, 1, func(w *world) {
		c := w.clients[0]
		w.register(c)
		a0 := w.openConfirmed(c, 0, "a", 3)
		a1 := w.openConfirmed(c, 1, "a", 3)
		w.lockNew(c, 0, a0, 0, 2, 0, 2)
		w.lockNew(c, 1, a1, 0, 2, 4, 6)
		lo := c.lockOwner[0]
		w.do(c, &opSpec{Kind: kLock, FH: a1.fh, LockOwner: lo.key, LockSeq: nextSeq(lo.seq), Stateid: a1.locks[lo.key], LockType: 2, Offset: 2, Length: 2})
		w.do(c, &opSpec{Kind: kLocku, FH: a1.fh, LockOwner: lo.key, LockSeq: nextSeq(lo.seq), Stateid: a1.locks[lo.key], LockType: 2, Offset: 0, Length: 6})
	})
}

// flightOf returns the in-flight request of a script step.
func (w *world) flightOf(op *opSpec) *flight {
	for _, fl := range w.flights {
		if fl.op == op {
			return fl
		}
	}
	panic("harness: scripted request is not in flight")
}

func retxOf(orig *opSpec) *opSpec {
	op := *orig
	op.Out, op.Park, op.N = "", "", 0
	op.Fault, op.FaultSt = "", ""
	op.Gate = false
	op.Retx = orig.N
	op.Note = "retransmission"
	return &op
}

// Three identical retransmissions arrive while the original OPEN is
// parked inside VirtualOpenChild: all of them wait behind the
// open-owner's transaction, and when the original completes every one
// of them must return with the original's reply (a wake-up that reaches
// only one waiter leaves the others blocked for ever).
func TestC19NFS40RegressDuplicatesBehindOpenParkedBefore(t *testing.T) {
	duplicatesBehindParkedOpen(t, parkOpenBefore)
}

func TestC19NFS40RegressDuplicatesBehindOpenParkedAfter(t *testing.T) {
	duplicatesBehindParkedOpen(t, parkOpenAfter)
}

func duplicatesBehindParkedOpen(t *testing.T, park string) {
	runScripted(t, profC19, 1, func(w *world) {
		c := w.clients[0]
		w.register(c)
		o := c.owners[0]
		orig := &opSpec{Kind: kOpen, ClientID: c.confirmed, FH: "root", Owner: o.key, Seq: 7, Name: "a", Access: 3, How: "unchecked", Park: park}
		w.do(c, orig)
		for i := 0; i < 3; i++ {
			w.issue(c, retxOf(orig))
		}
		if len(w.flights) != 4 {
			panic(fmt.Sprintf("harness: %d requests in flight, expected the original and three duplicates", len(w.flights)))
		}
		w.release(w.flightOf(orig))
		if len(w.flights) != 0 {
			panic("harness: requests still in flight after the release")
		}
		w.issue(c, retxOf(orig))
	})
}

// The open-owner and lock-owner seqids start just below 2^32: the
// successor of 2^32-1 is 1 (nextSeqID skips 0), a request carrying 0
// there is out of order, and retransmissions keep working across the
// wrap-around.
func TestC19NFS40RegressSeqidWrapAround(t *testing.T) {
	runScripted(t, profC19, 1, func(w *world) {
		c := w.clients[0]
		w.register(c)
		o, lo := c.owners[0], c.lockOwner[0]
		o.seq, lo.seq = 0xfffffffd, 0xfffffffe
		a := w.openConfirmed(c, 0, "a", 3) // OPEN 2^32-2, OPEN_CONFIRM 2^32-1
		if o.seq != 0xffffffff {
			panic("harness: scripted seqids are off")
		}
		// Seqid 0 is not the successor of 2^32-1.
		w.do(c, &opSpec{Kind: kOpenDowngrade, FH: a.fh, Owner: o.key, Seq: 0, Stateid: a.sid, Access: 3, Note: "seq_zero_after_max"})
		down := &opSpec{Kind: kOpenDowngrade, FH: a.fh, Owner: o.key, Seq: 1, Stateid: a.sid, Access: 1}
		w.do(c, down)
		w.issue(c, retxOf(down))
		w.lockNew(c, 0, a, 0, 1, 0, 2) // open-owner seqid 2, lock-owner seqid 2^32-1
		if lo.seq != 0xffffffff {
			panic("harness: scripted lock seqids are off")
		}
		w.do(c, &opSpec{Kind: kLocku, FH: a.fh, LockOwner: lo.key, LockSeq: 0, Stateid: a.locks[lo.key], LockType: 1, Offset: 0, Length: 1, Note: "seq_zero_after_max"})
		unlock := &opSpec{Kind: kLocku, FH: a.fh, LockOwner: lo.key, LockSeq: 1, Stateid: a.locks[lo.key], LockType: 1, Offset: 0, Length: 1}
		w.do(c, unlock)
		w.issue(c, retxOf(unlock))
		w.do(c, &opSpec{Kind: kClose, FH: a.fh, Owner: o.key, Seq: nextSeq(o.seq), Stateid: a.sid})
	})
}

// Two clients use the same open-owner and lock-owner byte strings: they
// are different owners, so their locks conflict with each other, LOCKT
// of one of them is not blind to the other's locks, and CLOSE by one of
// them leaves the other's bytes alone (read back by the table scan).
func TestC20NFS40RegressSameOwnerBytesTwoClients(t *testing.T) {
	runScripted(t, profC20, 2, func(w *world) {
		c0, c1 := w.clients[0], w.clients[1]
		w.register(c0)
		w.register(c1)
		if c0.lockOwner[0].key != c1.lockOwner[0].key || c0.owners[0].key != c1.owners[0].key {
			panic("harness: the clients are meant to use identical owner strings")
		}
		a0 := w.openConfirmed(c0, 0, "a", 3)
		a1 := w.openConfirmed(c1, 0, "a", 3)
		w.lockNew(c0, 0, a0, 0, 2, 0, 4)
		w.lockNew(c1, 0, a1, 0, 2, 2, 6) // conflicts with client 0's bytes 2..3
		w.lockNew(c1, 0, a1, 0, 2, 4, 8)
		w.do(c1, &opSpec{Kind: kLockt, FH: a1.fh, LockCID: c1.confirmed, LockOwner: c1.lockOwner[0].key, LockType: 2, Offset: 0, Length: 8})
		w.do(c0, &opSpec{Kind: kLockt, FH: a0.fh, LockCID: c0.confirmed, LockOwner: c0.lockOwner[0].key, LockType: 2, Offset: 0, Length: 4})
		o := c0.owners[0]
		w.do(c0, &opSpec{Kind: kClose, FH: a0.fh, Owner: o.key, Seq: nextSeq(o.seq), Stateid: a0.sid})
	})
}

// CLOSE of an open on which two lock-owners hold bytes frees the bytes
// of both, and nothing of a third owner that locked through another
// open; the table scan after the CLOSE reads every unit back.
func TestC20NFS40RegressCloseWithTwoLockOwners(t *testing.T) {
	runScripted(t, profC20, 2, func(w *world) {
		c0, c1 := w.clients[0], w.clients[1]
		w.register(c0)
		w.register(c1)
		a0 := w.openConfirmed(c0, 0, "a", 3)
		a1 := w.openConfirmed(c1, 0, "a", 3)
		w.lockNew(c0, 0, a0, 0, 2, 0, 3)
		w.lockNew(c0, 0, a0, 1, 1, 5, nUnits)
		w.lockNew(c1, 0, a1, 1, 1, 8, 12)
		o := c0.owners[0]
		w.do(c0, &opSpec{Kind: kClose, FH: a0.fh, Owner: o.key, Seq: nextSeq(o.seq), Stateid: a0.sid})
	})
}

// Failing file system calls below OPEN, READ, WRITE and SETATTR: the
// failed request leaves no open behind, releases the share it borrowed,
// and its cached error reply is what a retransmission gets.
func TestC18NFS40RegressFaultPaths(t *testing.T) {
	runScripted(t, profC18, 1, func(w *world) {
		c := w.clients[0]
		w.register(c)
		o := c.owners[0]
		for _, f := range []string{faultDirBefore, faultAlloc, faultDirAfter} {
			op := &opSpec{Kind: kOpen, ClientID: c.confirmed, FH: "root", Owner: o.key, Seq: nextSeq(o.seq), Name: "a", Access: 3, How: "unchecked", Fault: f, FaultSt: "io"}
			w.do(c, op)
			w.issue(c, retxOf(op))
		}
		a := w.openConfirmed(c, 0, "a", 3) // created by the dir_after attempt, opened now
		for _, k := range []string{kRead, kWrite, kSetattr} {
			w.do(c, &opSpec{Kind: k, FH: a.fh, Stateid: a.sid, Data: "x", Count: 1, Size: 2, Fault: faultIO, FaultSt: "access"})
			w.do(c, &opSpec{Kind: k, FH: a.fh, Stateid: sidAnonymous, Data: "x", Count: 1, Size: 2, Fault: faultIO, FaultSt: "rofs"})
		}
		w.do(c, &opSpec{Kind: kRead, FH: a.fh, Stateid: sidAnonymous, Count: 1, Fault: faultOpenSelf, FaultSt: "nxio"})
		w.do(c, &opSpec{Kind: kOpen, ClientID: c.confirmed, FH: "root", Owner: o.key, Seq: nextSeq(o.seq), Name: "a", Access: 1, How: "nocreate", Fault: faultOpenSelf, FaultSt: "io"})
		w.do(c, &opSpec{Kind: kOpen, ClientID: c.confirmed, FH: a.fh, Owner: o.key, Seq: nextSeq(o.seq), Name: "a", Access: 1, How: "nocreate", Claim: "previous", Stateid: sidAnonymous, Fault: faultOpenSelf, FaultSt: "io"})
		w.do(c, &opSpec{Kind: kClose, FH: a.fh, Owner: o.key, Seq: nextSeq(o.seq), Stateid: a.sid})
	})
}

// A lock-owner with lock state on two files, only the first of which
// still holds bytes: RELEASE_LOCKOWNER is refused with LOCKS_HELD and
// must release nothing, in particular not the lock state of the second
// file (whose lock state ID must stay usable for I/O afterwards).
func TestC18NFS40RegressRefusedReleaseLockownerKeepsEverything(t *testing.T) {
	runScripted(t, profC18, 1, func(w *world) {
		c := w.clients[0]
		w.register(c)
		a := w.openConfirmed(c, 0, "a", 3)
		b := w.openConfirmed(c, 0, "b", 3)
		w.lockNew(c, 0, a, 0, 2, 0, 2)
		w.lockNew(c, 0, b, 0, 2, 3, 5)
		lo := c.lockOwner[0]
		w.do(c, &opSpec{Kind: kLocku, FH: b.fh, LockOwner: lo.key, LockSeq: nextSeq(lo.seq), Stateid: b.locks[lo.key], LockType: 2, Offset: cut(3), Length: cut(5) - cut(3)})
		w.do(c, &opSpec{Kind: kReleaseLockowner, LockCID: c.confirmed, LockOwner: lo.key})
		w.do(c, &opSpec{Kind: kWrite, FH: b.fh, Stateid: b.locks[lo.key]})
		w.do(c, &opSpec{Kind: kLockt, FH: a.fh, LockCID: c.confirmed, LockOwner: c.lockOwner[1].key, LockType: 2, Offset: 0, Length: 10})
	})
}

// expectEvents makes a scripted case say what it is meant to exercise.
func (w *world) expectEvents(want map[string]int) {
	for k, n := range want {
		if got := w.m.ev[k] + w.labels[k]; got != n {
			panic(fmt.Sprintf("harness: scripted case counted %d x %q, expected %d (the script no longer exercises what it was written for)", got, k, n))
		}
	}
}

// Seeded change C19-6A (isNextStateID computes the successor as
// seqid+1): OPEN, OPEN_CONFIRM, the open state ID's seqid is placed at
// 2^32-1 (stands for a long-lived open), CLOSE - which takes the state ID
// to seqid 1, not 0 - and the identical CLOSE again: the retransmission
// must get the first reply (the state ID in the cached reply, seqid 1, is
// the successor of the one in the request, 2^32-1) and the file must not
// be closed a second time.
func TestC19NFS40RegressStateIDSeqidWrapClose(t *testing.T) {
	runScripted(t, profC19, 1, func(w *world) {
		c := w.clients[0]
		w.register(c)
		a := w.openConfirmed(c, 0, "a", 3)
		w.presetStateID(presetTarget{c: c, co: a}, 0xffffffff)
		o := c.owners[0]
		cl := &opSpec{Kind: kClose, FH: a.fh, Owner: o.key, Seq: nextSeq(o.seq), Stateid: a.sid}
		if cl.Stateid.Seq != 0xffffffff {
			panic("harness: the client simulator was not told about the preset")
		}
		w.do(c, cl)
		w.issue(c, retxOf(cl))
		w.expectEvents(map[string]int{"stateid_seqid_preset": 1, "stateid_seqid_wrapped:close": 1, "replay_of_wrapping_operation:close": 1, "replay_byte_equal": 1})
	})
}

// The same for the operations of a lock-owner: LOCKU takes the lock
// state ID from 2^32-1 to 1 and is retransmitted; then (second lock
// state, on another file) LOCK with the existing lock-owner does. Before
// and after the wrap-around a request with an older seqid gets
// NFS4ERR_OLD_STATEID and one with a newer seqid NFS4ERR_BAD_STATEID,
// where older/newer are taken modulo 2^32 as nfs40CompareStateSeqID
// documents.
func TestC19NFS40RegressStateIDSeqidWrapLockuLock(t *testing.T) {
	runScripted(t, profC19, 1, func(w *world) {
		c := w.clients[0]
		w.register(c)
		a := w.openConfirmed(c, 0, "a", 3)
		b := w.openConfirmed(c, 0, "b", 3)
		w.lockNew(c, 0, a, 0, 2, 0, 4)
		w.lockNew(c, 0, b, 1, 2, 0, 4)
		lo0, lo1 := c.lockOwner[0], c.lockOwner[1]
		locku := func(co *cOpen, lo *cLockOwner, s sid, note string) *opSpec {
			return &opSpec{Kind: kLocku, FH: co.fh, LockOwner: lo.key, LockSeq: nextSeq(lo.seq), Stateid: s, LockType: 2, Offset: 0, Length: 1, Note: note}
		}

		// File a, lock-owner 0: LOCKU wraps.
		w.presetStateID(presetTarget{c: c, co: a, lok: lo0.key}, 0xffffffff)
		at := a.locks[lo0.key]
		// Server at 2^32-1. Seqid 1 (what comes next) and 0 are from the future.
		w.do(c, locku(a, lo0, sid{Seq: 1, Other: at.Other}, "sid_future"))
		w.do(c, locku(a, lo0, sid{Seq: 0, Other: at.Other}, "sid_future"))
		// 2^32-2 is old. The lock-owner's seqid advances on that error.
		old := locku(a, lo0, sid{Seq: 0xfffffffe, Other: at.Other}, "sid_old")
		w.do(c, old)
		lo0.seq = old.LockSeq
		un := locku(a, lo0, at, "")
		w.do(c, un)
		w.issue(c, retxOf(un))
		if got := a.locks[lo0.key]; got.Seq != 1 {
			panic(fmt.Sprintf("harness: the client simulator holds lock state ID %s after the wrap-around", got))
		}
		// Server at 1. 2^32-1 and 0 are old now, 2 is from the future.
		old = locku(a, lo0, at, "sid_old")
		w.do(c, old)
		lo0.seq = old.LockSeq
		old = locku(a, lo0, sid{Seq: 0, Other: at.Other}, "sid_old")
		w.do(c, old)
		lo0.seq = old.LockSeq
		w.do(c, locku(a, lo0, sid{Seq: 2, Other: at.Other}, "sid_future"))
		w.do(c, locku(a, lo0, a.locks[lo0.key], ""))

		// File b, lock-owner 1: LOCK with the existing lock-owner wraps.
		w.presetStateID(presetTarget{c: c, co: b, lok: lo1.key}, 0xfffffffe)
		w.do(c, locku(b, lo1, b.locks[lo1.key], "")) // 2^32-2 -> 2^32-1
		lk := &opSpec{Kind: kLock, FH: b.fh, LockOwner: lo1.key, LockSeq: nextSeq(lo1.seq), Stateid: b.locks[lo1.key], LockType: 2, Offset: 8, Length: 2}
		w.do(c, lk)
		w.issue(c, retxOf(lk))
		w.do(c, &opSpec{Kind: kWrite, FH: b.fh, Stateid: b.locks[lo1.key], Data: "x"})
		w.expectEvents(map[string]int{
			"stateid_seqid_preset": 2, "stateid_seqid_wrapped:locku": 1, "stateid_seqid_wrapped:lock": 1,
			"replay_of_wrapping_operation:locku": 1, "replay_of_wrapping_operation:lock": 1,
			"old_stateid_from_before_the_wrap": 1, "future_stateid_from_beyond_the_wrap": 2,
		})
	})
}

// The same for OPEN_DOWNGRADE and for an OPEN of a file the open-owner
// already has open (upgrade), with old and future seqids on both sides
// of the wrap-around.
func TestC19NFS40RegressStateIDSeqidWrapOpenDowngradeOpen(t *testing.T) {
	runScripted(t, profC19, 1, func(w *world) {
		c := w.clients[0]
		w.register(c)
		o := c.owners[0]
		a := w.openConfirmed(c, 0, "a", 3)
		w.presetStateID(presetTarget{c: c, co: a}, 0xfffffffe)
		down := func(s sid, acc uint32, note string) *opSpec {
			return &opSpec{Kind: kOpenDowngrade, FH: a.fh, Owner: o.key, Seq: nextSeq(o.seq), Stateid: s, Access: acc, Note: note}
		}
		w.do(c, down(a.sid, 3, "")) // 2^32-2 -> 2^32-1
		at := a.sid
		if at.Seq != 0xffffffff {
			panic("harness: scripted state ID seqids are off")
		}
		w.do(c, down(sid{Seq: 1, Other: at.Other}, 3, "sid_future"))
		w.do(c, down(sid{Seq: 0xfffffffe, Other: at.Other}, 3, "sid_old"))
		d := down(at, 1, "")
		w.do(c, d) // 2^32-1 -> 1
		w.issue(c, retxOf(d))
		if a.sid.Seq != 1 {
			panic(fmt.Sprintf("harness: the client simulator holds open state ID %s after the wrap-around", a.sid))
		}
		w.do(c, down(at, 1, "sid_old"))
		w.do(c, down(sid{Seq: 0, Other: at.Other}, 1, "sid_old"))
		w.do(c, down(sid{Seq: 2, Other: at.Other}, 1, "sid_future"))
		w.do(c, &opSpec{Kind: kRead, FH: a.fh, Stateid: a.sid, Count: 1})

		// OPEN of the same file for writing by the same open-owner: the
		// upgrade advances the state ID as well.
		w.presetStateID(presetTarget{c: c, co: a}, 0xffffffff)
		up := &opSpec{Kind: kOpen, ClientID: c.confirmed, FH: "root", Owner: o.key, Seq: nextSeq(o.seq), Name: "a", Access: 2, How: "nocreate"}
		w.do(c, up)
		w.issue(c, retxOf(up))
		if a.sid.Seq != 1 || a.access != 3 {
			panic(fmt.Sprintf("harness: the client simulator holds open state ID %s access %d after the upgrade", a.sid, a.access))
		}
		cl := &opSpec{Kind: kClose, FH: a.fh, Owner: o.key, Seq: nextSeq(o.seq), Stateid: a.sid}
		w.do(c, cl)
		w.issue(c, retxOf(cl))
		w.expectEvents(map[string]int{
			"stateid_seqid_preset": 2, "stateid_seqid_wrapped:open_downgrade": 1, "stateid_seqid_wrapped:open": 1,
			"replay_of_wrapping_operation:open_downgrade": 1, "replay_of_wrapping_operation:open": 1,
			"old_stateid_from_before_the_wrap": 1, "future_stateid_from_beyond_the_wrap": 1,
			"replayed_open_getfh_equal": 1,
		})
	})
}

package nfs40sim

import (
	"fmt"
	"runtime/debug"
	"testing"
	"testing/synctest"

	"verif/harness/internal/simkit"
)

// Scripted regressions: fixed request sequences run through the same
// world, model and oracles as the generated cases.

func runScripted(t *testing.T, prof *profile, nClients int, body func(w *world)) {
	var failure string
	var w *world
	synctest.Test(t, func(st *testing.T) {
		defer func() {
			if r := recover(); r != nil {
				if v, isV := r.(violation); isV {
					failure = fmt.Sprintf("[%s] %s", v.class, v.msg)
				} else {
					failure = fmt.Sprintf("panic: %v\n%s", r, debug.Stack())
				}
			}
			if w != nil {
				w.unparkAll()
			}
		}()
		w = newWorld(nil, prof, nClients)
		body(w)
		w.finish()
	})
	rec := simkit.NewRecorder(t, prof.property, "nfs40_regress_"+t.Name(), "scripted regression of a shrunk generated failure, run through the same world, reference model and oracles as the generated cases")
	if failure == "" {
		rec.Case(w.script, true, "regression")
	}
	if failure != "" {
		t.Fatalf("VERIF-VIOLATION property=%s: %s\nscript:\n%s", prof.property, failure, w.script1())
	}
}

func (w *world) do(c *cClient, op *opSpec) {
	w.noteSent(c, op)
	w.issue(c, op)
}

func (w *world) register(c *cClient) {
	w.do(c, &opSpec{Kind: kSetclientid, LongID: c.longID, Verifier: c.verifier})
	w.do(c, &opSpec{Kind: kSetclientidConfirm, ClientID: c.cid, Confirm: c.confirm})
}

// openConfirmed opens name through open-owner k and confirms if asked to.
func (w *world) openConfirmed(c *cClient, k int, name string, access uint32) *cOpen {
	o := c.owners[k]
	w.do(c, &opSpec{Kind: kOpen, ClientID: c.confirmed, FH: "root", Owner: o.key, Seq: nextSeq(o.seq), Name: name, Access: access, How: "unchecked"})
	for _, co := range o.opens {
		if co.name == name {
			if co.unconf {
				w.do(c, &opSpec{Kind: kOpenConfirm, FH: co.fh, Owner: o.key, Seq: nextSeq(o.seq), Stateid: co.sid})
			}
			return co
		}
	}
	panic("harness: scripted open failed")
}

func (w *world) lockNew(c *cClient, k int, co *cOpen, lk int, lt int32, from, to int) {
	o, lo := c.owners[k], c.lockOwner[lk]
	w.do(c, &opSpec{Kind: kLock, FH: co.fh, NewLO: true, Owner: o.key, Seq: nextSeq(o.seq), Stateid: co.sid, LockOwner: lo.key, LockCID: c.confirmed, LockSeq: nextSeq(lo.seq), LockType: lt, Offset: cut(from), Length: cut(to) - cut(from)})
}

// One lock-owner takes locks on one file through the opens of two
// open-owners (legal: RFC 7530 16.10.5 keys lock state by open file and
// lock-owner); closing one of the opens, or letting the lease expire,
// must not bring the server down, and LOCKT by the owner never conflicts
// with its own locks.
func TestC20NFS40RegressSharedLockOwnerClose(t *testing.T) {
	runScripted(t, profC20, 1, func(w *world) {
		c := w.clients[0]
		w.register(c)
		a0 := w.openConfirmed(c, 0, "a", 3)
		a1 := w.openConfirmed(c, 1, "a", 3)
		w.lockNew(c, 0, a0, 0, 2, 0, 1)
		w.lockNew(c, 1, a1, 0, 2, 5, 6)
		w.do(c, &opSpec{Kind: kLockt, FH: a0.fh, LockCID: c.confirmed, LockOwner: c.lockOwner[0].key, LockType: 2, Offset: 0, Length: 10})
		o := c.owners[0]
		w.do(c, &opSpec{Kind: kClose, FH: a0.fh, Owner: o.key, Seq: nextSeq(o.seq), Stateid: a0.sid})
	})
}

func TestC20NFS40RegressSharedLockOwnerExpiry(t *testing.T) {
	runScripted(t, profC20, 1, func(w *world) {
		c := w.clients[0]
		w.register(c)
		a0 := w.openConfirmed(c, 0, "a", 3)
		a1 := w.openConfirmed(c, 1, "a", 3)
		w.lockNew(c, 0, a0, 0, 2, 0, 1)
		w.lockNew(c, 1, a1, 0, 2, 5, 6)
	})
}

// The lock-owner's ranges taken through two opens merge; unlocking
// through the second open must not drive a per-open lock count negative.
func TestC20NFS40RegressSharedLockOwnerMerge(t *testing.T) {
	runScripted(t, profC20, 1, func(w *world) {
		c := w.clients[0]
		w.register(c)
		a0 := w.openConfirmed(c, 0, "a", 3)
		a1 := w.openConfirmed(c, 1, "a", 3)
		w.lockNew(c, 0, a0, 0, 2, 0, 2)
		w.lockNew(c, 1, a1, 0, 2, 4, 6)
		lo := c.lockOwner[0]
		w.do(c, &opSpec{Kind: kLock, FH: a1.fh, LockOwner: lo.key, LockSeq: nextSeq(lo.seq), Stateid: a1.locks[lo.key], LockType: 2, Offset: 2, Length: 2})
		w.do(c, &opSpec{Kind: kLocku, FH: a1.fh, LockOwner: lo.key, LockSeq: nextSeq(lo.seq), Stateid: a1.locks[lo.key], LockType: 2, Offset: 0, Length: 6})
	})
}

#!/usr/bin/env python3
"""Regenerates MANIFEST.json from checks_config.py (run after editing it)."""
import json, os, subprocess
from checks_config import CHECKS, META

ROOT = os.path.dirname(os.path.abspath(__file__))
props = [json.loads(l)["id"] for l in open(os.path.join(ROOT, "properties.jsonl"))]
hooks_commits = [l.strip() for l in open(os.path.join(ROOT, "MANIFEST.hooks")) if l.strip() and not l.startswith("#")] if os.path.exists(os.path.join(ROOT, "MANIFEST.hooks")) else []
m = {
    "version": 1,
    "setup_cmd": "./setup.sh",
    "hooks": {
        "guard": "verif (Go build tag)",
        "enable": "go test -c -tags verif (harness/go.mod replaces github.com/buildbarn/bb-remote-execution => /repo)",
        "baseline_off_cmd": "cd /repo && go test -mod=mod -json -vet=off -count=1 -timeout 25m ./...",
        "source_commits": [c.split()[0] for c in hooks_commits],
        "add_only": True,
    },
    "engines": [
        {"name": "rapid-harness", "path": "harness/", "serves_properties": sorted(set(CHECKS) & set(open(os.path.join(ROOT, "claimed.txt")).read().split())), "kind_free_text": "pgregory.net/rapid v1.3.0 stateful/model-based property tests (plus testing/synctest for harness-owned schedules and fault enumeration; no native go fuzzing, see DESIGN 12.1) compiled against /repo's working tree; driver ./check"},
    ],
    "checks": [],
    "not_applicable": [],
    "notes": "See DESIGN.md. Exit codes: 0 held, 1 VIOLATION line, 2 inconclusive (build failure/time-out). known_findings.json lists recorded/fixed genuine defects.",
}
# Only properties listed in claimed.txt (reviewed by the lead: green on the unchanged tree at
# several seeds, sensitivity trials done) are claimed; the rest stays under not_applicable.
claimed = set(open(os.path.join(ROOT, "claimed.txt")).read().split())
for pid in props:
    if pid in CHECKS and pid in claimed:
        meta = META[pid]
        m["checks"].append({
            "property_id": pid,
            "quick_cmd": "./check %s --tier quick" % pid,
            "thorough_cmd": "./check %s --tier thorough" % pid,
            "evidence_file": "/verif/evidence/%s.json" % pid,
            "replay_cmd_template": "./check %s --replay {path}" % pid,
            "engine": "rapid-harness",
            "level_claimed": {"category": CHECKS[pid].get("level", "exploration"), "text": meta["text"], "design_ref": meta["design_ref"]},
            "level_note": meta["note"],
            "technique": meta["technique"],
        })
    else:
        m["not_applicable"].append({"property_id": pid, "reason": "check not built yet (planned, see DESIGN.md section 6); not claimed"})
with open(os.path.join(ROOT, "MANIFEST.json"), "w") as f:
    json.dump(m, f, indent=1)
    f.write("\n")
print("claimed:", [c["property_id"] for c in m["checks"]])
